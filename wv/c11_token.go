package main

import (
	"fmt"
	"go/ast"
	"go/token"
	"go/types"
	"strings"

	"wv/core"
)

// c11CmpConst: atom is `D REL K` (either operand order) with K the given
// package-level constant (by object or value); returns D and REL normalised so
// that D is on the left.
func c11CmpConst(fl *core.Flow, atom ast.Expr, k types.Object) (ast.Expr, token.Token, bool) {
	b, ok := ast.Unparen(atom).(*ast.BinaryExpr)
	if !ok {
		return nil, 0, false
	}
	switch b.Op {
	case token.GTR, token.GEQ, token.LSS, token.LEQ, token.EQL, token.NEQ:
	default:
		return nil, 0, false
	}
	if fl.Is(k)(b.Y) {
		return ast.Unparen(b.X), b.Op, true
	}
	if fl.Is(k)(b.X) {
		return ast.Unparen(b.Y), mirror(b.Op), true
	}
	return nil, 0, false
}

// c11ErrorBranch: the body of ifs neither falls out nor returns success.
func c11ErrorBranch(fl *core.Flow, ifs *ast.IfStmt) (bool, string) {
	info := fl.F.Info()
	hasErr := c11HasErrorResult(fl)
	esc, n := fl.Escapes(core.Query{Region: core.RegionOf(ifs.Body), FallOut: true, Exit: func(x ast.Node) bool {
		if c11IsPanicStmt(info, x) {
			return true
		}
		if r, ok := x.(*ast.ReturnStmt); ok && hasErr {
			return !fl.IsErrorReturn(r)
		}
		return false
	}})
	if n == 0 {
		return false, "empty branch"
	}
	var lines []string
	for _, e := range esc {
		lines = append(lines, e.String())
	}
	return len(esc) == 0, strings.Join(lines, "; ")
}

// c11LimitGuards lists the if-statements of fl whose condition contains (as a
// disjunct) a comparison of some expression with constant k that is true when
// the expression is large, and whose body is an error branch.
type c11Limit struct {
	ifs  *ast.IfStmt
	atom ast.Expr
	d    ast.Expr
	op   token.Token
}

func c11LimitGuards(fl *core.Flow, k types.Object, allowEq bool) (out []c11Limit, notes []string) {
	ast.Inspect(fl.F.Decl.Body, func(n ast.Node) bool {
		ifs, ok := n.(*ast.IfStmt)
		if !ok {
			return true
		}
		for _, at := range flattenOr(ifs.Cond) {
			d, op, ok := c11CmpConst(fl, at, k)
			if !ok {
				continue
			}
			if op != token.GTR && op != token.GEQ && !(allowEq && op == token.EQL) {
				notes = append(notes, fmt.Sprintf("%s: `%s` compares with %s but is not an upper-limit test", fl.F.Prog.Pos(at.Pos()), core.Src(fl.F.Prog.Fset, at), k.Name()))
				continue
			}
			if okb, why := c11ErrorBranch(fl, ifs); !okb {
				notes = append(notes, fmt.Sprintf("%s: the branch of `%s` does not end in an error return: %s", fl.F.Prog.Pos(at.Pos()), core.Src(fl.F.Prog.Fset, at), why))
				continue
			}
			out = append(out, c11Limit{ifs, ast.Unparen(at), d, op})
		}
		return true
	})
	return out, notes
}

func c11PassEdge(lims []c11Limit, match func(l c11Limit) bool) func(cond ast.Expr, ci *core.CondInfo, taken bool) bool {
	return func(cond ast.Expr, ci *core.CondInfo, taken bool) bool {
		return c11Implied(cond, taken, func(a ast.Expr, v bool) bool {
			if v {
				return false
			}
			for _, l := range lims {
				if a == l.atom && match(l) {
					return true
				}
			}
			return false
		})
	}
}

func c11TokenLimits(k *gctx) {
	c := k.c
	g := k.g
	const rel = "lang/token"
	fl := k.flow("L", rel, "", "Tokenize")
	maxLine := k.obj("L.line", rel, "maxLine")
	maxTok := k.obj("L.size", rel, "maxTokenSize")
	maxID := k.obj("L.id", rel, "maxID")
	for _, o := range []types.Object{maxLine, maxTok, maxID} {
		if cst, ok := o.(*types.Const); ok {
			c.Info("L", rel+"."+cst.Name(), "value "+cst.Val().ExactString())
		}
	}
	if fl != nil && maxLine != nil {
		info := fl.F.Info()
		// ---- L.line: `line++` only after `line == maxLine` was false ----------
		lims, notes := c11LimitGuards(fl, maxLine, true)
		counted := map[types.Object]bool{}
		for _, l := range lims {
			if id, ok := l.d.(*ast.Ident); ok {
				counted[info.Uses[id]] = true
			}
		}
		anchor := fl.F.Name() + "[line counter]"
		claim := "the line counter is incremented only after it was compared with maxLine (error return when reached): Token.Line and every later line-indexed table stay within 20 bits"
		if len(counted) == 0 {
			c.Fail("L.line", anchor, claim, 0, "no `line == maxLine`-style guard with an error branch in Tokenize\n"+strings.Join(notes, "\n"))
		} else {
			isInc := func(x ast.Node) bool {
				for o := range counted {
					if c11IsIncrement(fl, x, c11Counter{"local", o}) {
						return true
					}
				}
				return false
			}
			k.mustPass("L.line", anchor, claim, fl, core.Query{Exit: isInc, Events: []core.Event{{Edge: c11PassEdge(lims, func(l c11Limit) bool { return true })}}})
			// any other write of the counter (besides its initialisation) is not expected
			nOther := 0
			ast.Inspect(fl.F.Decl.Body, func(n ast.Node) bool {
				if as, ok := n.(*ast.AssignStmt); ok && as.Tok != token.DEFINE {
					for _, l := range as.Lhs {
						if id, ok := l.(*ast.Ident); ok && counted[info.Uses[id]] && !isInc(n) {
							nOther++
						}
					}
				}
				return true
			})
			c.Check(nOther == 0, "L.line.writes", anchor, "the line counter is written only by its initialisation and by guarded increments", 1, fmt.Sprintf("%d other assignments", nOther))
		}
	}

	// ---- L.size: the text handed to Map.Insert is at most maxTokenSize bytes ----
	if fl != nil && maxTok != nil {
		info := fl.F.Info()
		insert := g.LookupMethod(rel, "Map", "Insert")
		lims, notes := c11LimitGuards(fl, maxTok, true)
		// size expression J - I
		sizeOf := func(l c11Limit) (types.Object, types.Object) {
			b, ok := l.d.(*ast.BinaryExpr)
			if !ok || b.Op != token.SUB {
				return nil, nil
			}
			return fl.Obj(b.X), fl.Obj(b.Y)
		}
		var calls []*ast.CallExpr
		ast.Inspect(fl.F.Decl.Body, func(n ast.Node) bool {
			if call, ok := n.(*ast.CallExpr); ok && insert != nil && core.IsCallTo(info, call, insert) {
				calls = append(calls, call)
			}
			return true
		})
		// the main scanning loop: the outermost for statement
		var mainLoop *ast.ForStmt
		for _, s := range fl.F.Decl.Body.List {
			st := s
			if ls, ok := st.(*ast.LabeledStmt); ok {
				st = ls.Stmt
			}
			if fs, ok := st.(*ast.ForStmt); ok && mainLoop == nil {
				mainLoop = fs
			}
		}
		for i, call := range calls {
			anchor := fmt.Sprintf("%s[Map.Insert call %d]", fl.F.Name(), i)
			claim := "the token text handed to Map.Insert is src[i:j] with j-i bounded by maxTokenSize: either `j-i > maxTokenSize` was tested (error return) on every path of this token's branch, or j grew only in a loop that tests `j-i == maxTokenSize` before each j++"
			if len(call.Args) != 1 || mainLoop == nil {
				c.Undecided("L.size", anchor, claim, "unexpected shape of the Insert call or of Tokenize's main loop")
				continue
			}
			// resolve the argument to string(src[I:J])
			var lo, hi types.Object
			sliceOf := func(e ast.Expr) bool {
				conv, ok := ast.Unparen(e).(*ast.CallExpr)
				if !ok || len(conv.Args) != 1 {
					return false
				}
				if tv, ok := info.Types[conv.Fun]; !ok || !tv.IsType() {
					return false
				}
				se, ok := ast.Unparen(conv.Args[0]).(*ast.SliceExpr)
				if !ok || se.Low == nil || se.High == nil {
					return false
				}
				lo, hi = fl.Obj(se.Low), fl.Obj(se.High)
				return lo != nil && hi != nil
			}
			if !fl.Denotes(sliceOf)(call.Args[0]) {
				c.Undecided("L.size", anchor, claim, fmt.Sprintf("%s: argument `%s` is not string(src[i:j])", g.Pos(call.Pos()), core.Src(g.Fset, call.Args[0])))
				continue
			}
			// this token's branch: the top-level if statement of the main loop that contains the call
			var branch *ast.IfStmt
			for _, s := range mainLoop.Body.List {
				if is, ok := s.(*ast.IfStmt); ok && call.Pos() >= is.Pos() && call.End() <= is.End() {
					branch = is
				}
			}
			if branch == nil {
				c.Undecided("L.size", anchor, claim, "the Insert call is not inside a top-level branch of the scanning loop")
				continue
			}
			region := core.RegionOf(branch.Body)
			isCall := func(x ast.Node) bool { return core.AnyCall(x, func(cl *ast.CallExpr) bool { return cl == call }) }
			sameSize := func(l c11Limit) bool { j, i := sizeOf(l); return j == hi && i == lo }
			// style A: a `j-i > maxTokenSize` test on every path of the branch
			escA, nA := fl.Escapes(core.Query{Region: region, Exit: isCall, Events: []core.Event{{Edge: c11PassEdge(lims, func(l c11Limit) bool {
				return sameSize(l) && (l.op == token.GTR || l.op == token.GEQ)
			})}}})
			if len(escA) == 0 && nA > 0 {
				c.Pass("L.size", anchor, claim, nA, fmt.Sprintf("%s: size test after scanning dominates the Insert call", g.Pos(call.Pos())))
				continue
			}
			// style B: j grows only in a guarded loop
			var loops []*ast.ForStmt
			ast.Inspect(branch.Body, func(n ast.Node) bool {
				if fs, ok := n.(*ast.ForStmt); ok && fs.Post != nil && c11IsIncrement(fl, fs.Post, c11Counter{"local", hi}) {
					loops = append(loops, fs)
				}
				return true
			})
			var why []string
			okB := len(loops) > 0
			nB := 0
			for _, fs := range loops {
				esc, n := fl.Escapes(core.Query{Region: core.RegionOf(fs), Exit: func(x ast.Node) bool { return x == ast.Node(fs.Post) },
					Events: []core.Event{{Edge: c11PassEdge(lims, sameSize)}}})
				nB += n
				if len(esc) > 0 || n == 0 {
					okB = false
					for _, e := range esc {
						why = append(why, "j++ reachable without the size test: "+e.String())
					}
				}
			}
			// no other growth of j in the branch outside those loops, after the first loop
			ast.Inspect(branch.Body, func(n ast.Node) bool {
				grow := false
				switch s := n.(type) {
				case *ast.IncDecStmt:
					grow = s.Tok == token.INC && fl.Obj(s.X) == hi
				case *ast.AssignStmt:
					if s.Tok != token.DEFINE {
						for _, l := range s.Lhs {
							if fl.Obj(l) == hi {
								grow = true
							}
						}
					}
				}
				if !grow {
					return true
				}
				inLoop := false
				for _, fs := range loops {
					if n == ast.Node(fs.Post) {
						inLoop = true
					}
					if len(loops) > 0 && n.Pos() < fs.Pos() {
						inLoop = true // prefix skipping (0x, 0b) before the guarded loop starts
					}
				}
				if !inLoop {
					okB = false
					why = append(why, fmt.Sprintf("%s: `%s` changes %s outside the guarded loop", g.Pos(n.Pos()), core.Src(g.Fset, n), hi.Name()))
				}
				return true
			})
			if okB {
				c.Pass("L.size", anchor, claim, nB, fmt.Sprintf("%s: %s grows only in %d loop(s) that test the size before each increment", g.Pos(call.Pos()), hi.Name(), len(loops)))
				continue
			}
			var lines []string
			for _, e := range escA {
				lines = append(lines, "no dominating size test: "+e.String())
			}
			c.Fail("L.size", anchor, claim, nA+nB, fmt.Sprintf("%s\n%s\n%s\n%s", g.Pos(call.Pos()), strings.Join(lines, "\n"), strings.Join(why, "\n"), strings.Join(notes, "\n")))
		}
		c.Floor("L.size", "Map.Insert call sites in Tokenize (string literal, identifier, number)", len(calls), 3)
	}

	// ---- L.id: a new ID is stored only after `id > maxID` was false -------------
	if fi := k.flow("L.id", rel, "Map", "Insert"); fi != nil && maxID != nil {
		info := fi.F.Info()
		lims, notes := c11LimitGuards(fi, maxID, false)
		guarded := map[types.Object]bool{}
		for _, l := range lims {
			if o := fi.Obj(l.d); o != nil {
				guarded[o] = true
			}
		}
		byName := core.LookupField(g.LookupObj(rel, "Map"), "byName")
		byID := core.LookupField(g.LookupObj(rel, "Map"), "byID")
		storesID := false
		isStore := func(x ast.Node) bool {
			as, ok := x.(*ast.AssignStmt)
			if !ok {
				return false
			}
			for i, l := range as.Lhs {
				if ix, ok := ast.Unparen(l).(*ast.IndexExpr); ok && core.FieldOf(info, ix.X, byName) {
					if i < len(as.Rhs) && guarded[fi.Obj(as.Rhs[i])] {
						storesID = true
					}
					return true
				}
				if core.FieldOf(info, l, byID) {
					return true
				}
			}
			return false
		}
		anchor := fi.F.Name() + "[new ID]"
		claim := "a new token ID is recorded in byName / byID only after `id > maxID` was false (error return otherwise): IDs stay within 20 bits, which ast.Node and the QID packing rely on"
		if len(lims) == 0 {
			c.Fail("L.id", anchor, claim, 0, "no `id > maxID` guard with an error branch in Map.Insert\n"+strings.Join(notes, "\n"))
		} else {
			ok := k.mustPass("L.id", anchor, claim, fi, core.Query{Exit: isStore, Events: []core.Event{{Edge: c11PassEdge(lims, func(l c11Limit) bool { return true })}}})
			ast.Inspect(fi.F.Decl.Body, func(n ast.Node) bool {
				if n != nil {
					isStore(n)
				}
				return true
			})
			if ok {
				c.Check(storesID, "L.id.value", anchor, "the value stored in byName is the variable that was compared with maxID", 1, "")
			}
		}
	}
}
