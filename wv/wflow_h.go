package main

// Tier W helpers for path-sensitive queries over Wuffs function bodies
// (used by C07's rule family H; additive, c05's liveness model is untouched):
//
//   * whCFG        — a statement-level control-flow graph of a Wuffs function
//                   (if / else-if chains, while with labelled break/continue,
//                   io_bind / io_limit / io_forget_history, yield, return);
//   * wKey        — a canonical structural key of an expression (constants by
//                   value, commutative whOperands sorted, `b > a` ≡ `a < b`);
//   * whFacts      — what is known on a path about *configuration expressions*
//                   (expressions over this.field / args.param / constants):
//                   `X == c`, `X <> c`, boolean atoms; three-valued evaluation
//                   of conditions under the facts; facts are dropped when the
//                   field (or parameter) they mention may be written;
//   * whModsets    — which receiver fields a method may write, transitively,
//                   `choose`-dispatch included.
//
// Nothing here looks at source text, line numbers (other than to print a
// diagnosis) or statement counts.

import (
	"fmt"
	"math/big"
	"sort"
	"strings"

	a "github.com/google/wuffs/lang/ast"
	t "github.com/google/wuffs/lang/token"
)

// ---------------------------------------------------------------- CFG

type whKind int

const (
	whEntry   whKind = iota
	whStmt           // assignment, expression statement, io-manip header
	whBranch         // if / while head: has conditional out-edges
	whYield          // yield? value (continues after resumption)
	whRet            // return value (terminal)
	whFallOff        // falling off the end of the body (terminal, success)
)

type whEdge struct {
	to    int
	cond  *a.Expr // nil: unconditional
	taken bool
}

type whNode struct {
	id   int
	kind whKind
	stmt *a.Node // Assign / Expr / IOManip / Ret; nil for entry, fall-off and branches
	cond *a.Expr // branches
	succ []whEdge
	line uint32
}

type whCFG struct {
	p           *WPkg
	f           *a.Func
	nodes       []*whNode
	entry       int
	locals      map[t.ID]bool
	unsupported string
}

type whLoopCtx struct {
	head, after int
}

func (g *whCFG) add(k whKind, stmt *a.Node, line uint32) *whNode {
	n := &whNode{id: len(g.nodes), kind: k, stmt: stmt, line: line}
	g.nodes = append(g.nodes, n)
	return n
}

func whLine(n *a.Node) uint32 {
	_, l := n.AsRaw().FilenameLine()
	return l
}

// whBuildCFG builds the graph of f's body.
func whBuildCFG(p *WPkg, f *a.Func) *whCFG {
	g := &whCFG{p: p, f: f, locals: map[t.ID]bool{}}
	var collect func(list []*a.Node)
	collect = func(list []*a.Node) {
		for _, n := range list {
			if n.Kind() == a.KVar {
				g.locals[n.AsVar().Name()] = true
			}
		}
	}
	collect(f.Body())
	entry := g.add(whEntry, nil, f.Line())
	exit := g.add(whFallOff, nil, 0)
	first := g.buildList(f.Body(), exit.id, map[a.Loop]whLoopCtx{})
	entry.succ = []whEdge{{to: first}}
	g.entry = entry.id
	return g
}

func (g *whCFG) buildList(list []*a.Node, next int, loops map[a.Loop]whLoopCtx) int {
	for i := len(list) - 1; i >= 0; i-- {
		next = g.buildStmt(list[i], next, loops)
	}
	return next
}

func (g *whCFG) buildIf(n *a.If, next int, loops map[a.Loop]whLoopCtx) int {
	b := g.add(whBranch, nil, whLine(n.AsNode()))
	b.cond = n.Condition()
	tt := g.buildList(n.BodyIfTrue(), next, loops)
	var ff int
	if ei := n.ElseIf(); ei != nil {
		ff = g.buildIf(ei, next, loops)
	} else {
		ff = g.buildList(n.BodyIfFalse(), next, loops)
	}
	b.succ = []whEdge{{to: tt, cond: b.cond, taken: true}, {to: ff, cond: b.cond, taken: false}}
	return b.id
}

func (g *whCFG) buildStmt(o *a.Node, next int, loops map[a.Loop]whLoopCtx) int {
	switch o.Kind() {
	case a.KVar, a.KAssert, a.KChoose:
		return next
	case a.KAssign, a.KExpr:
		n := g.add(whStmt, o, whLine(o))
		n.succ = []whEdge{{to: next}}
		return n.id
	case a.KIf:
		return g.buildIf(o.AsIf(), next, loops)
	case a.KWhile:
		w := o.AsWhile()
		head := g.add(whBranch, nil, whLine(o))
		head.cond = w.Condition()
		loops[w] = whLoopCtx{head: head.id, after: next}
		body := g.buildList(w.Body(), head.id, loops)
		head.succ = []whEdge{{to: body, cond: head.cond, taken: true}, {to: next, cond: head.cond, taken: false}}
		return head.id
	case a.KIOManip:
		m := o.AsIOManip()
		n := g.add(whStmt, o, whLine(o))
		body := g.buildList(m.Body(), next, loops)
		n.succ = []whEdge{{to: body}}
		return n.id
	case a.KJump:
		j := o.AsJump()
		lc, ok := loops[j.JumpTarget()]
		if !ok {
			g.unsupported = "jump without an enclosing loop"
			return next
		}
		if j.Keyword() == t.IDBreak {
			return lc.after
		}
		return lc.head
	case a.KRet:
		r := o.AsRet()
		if r.Keyword() == t.IDYield {
			n := g.add(whYield, o, whLine(o))
			n.succ = []whEdge{{to: next}}
			return n.id
		}
		n := g.add(whRet, o, whLine(o))
		return n.id
	case a.KIterate:
		g.unsupported = "iterate loop"
		return next
	}
	g.unsupported = "statement kind " + o.Kind().String()
	return next
}

// exprsOf returns the expressions a node evaluates itself (not those of nested statements).
func (n *whNode) exprsOf() []*a.Expr {
	var out []*a.Expr
	if n.cond != nil {
		out = append(out, n.cond)
	}
	if n.stmt == nil {
		return out
	}
	switch n.stmt.Kind() {
	case a.KAssign:
		as := n.stmt.AsAssign()
		out = append(out, as.LHS(), as.RHS())
	case a.KExpr:
		out = append(out, n.stmt.AsExpr())
	case a.KIOManip:
		m := n.stmt.AsIOManip()
		out = append(out, m.IO(), m.Arg1(), m.HistoryPosition())
	case a.KRet:
		out = append(out, n.stmt.AsRet().Value())
	}
	return out
}

// whWalkExpr visits e and every sub-expression (call arguments included).
func whWalkExpr(e *a.Expr, f func(*a.Expr)) {
	if e == nil {
		return
	}
	f(e)
	if e.Operator() == t.IDXBinaryAs {
		whWalkExpr(e.LHS().AsExpr(), f)
		return
	}
	for _, o := range e.AsNode().AsRaw().SubNodes() {
		if o != nil && o.Kind() == a.KExpr {
			whWalkExpr(o.AsExpr(), f)
		}
	}
	for _, o := range e.Args() {
		switch o.Kind() {
		case a.KArg:
			whWalkExpr(o.AsArg().Value(), f)
		case a.KExpr:
			whWalkExpr(o.AsExpr(), f)
		}
	}
}

// callsOf lists the call expressions evaluated by the node.
func (n *whNode) callsOf() []*a.Expr {
	var out []*a.Expr
	for _, e := range n.exprsOf() {
		whWalkExpr(e, func(x *a.Expr) {
			if x.Operator() == a.ExprOperatorCall {
				out = append(out, x)
			}
		})
	}
	return out
}

// whStmtWalk visits every statement node of a body, nested bodies included.
func whStmtWalk(list []*a.Node, f func(*a.Node)) {
	for _, o := range list {
		f(o)
		switch o.Kind() {
		case a.KIf:
			for n := o.AsIf(); n != nil; n = n.ElseIf() {
				whStmtWalk(n.BodyIfTrue(), f)
				whStmtWalk(n.BodyIfFalse(), f)
			}
		case a.KWhile:
			whStmtWalk(o.AsWhile().Body(), f)
		case a.KIOManip:
			whStmtWalk(o.AsIOManip().Body(), f)
		case a.KIterate:
			for n := o.AsIterate(); n != nil; n = n.ElseIterate() {
				whStmtWalk(n.Body(), f)
			}
		}
	}
}

// whStmtExprs returns the expressions a statement evaluates itself.
func whStmtExprs(o *a.Node) []*a.Expr {
	switch o.Kind() {
	case a.KAssign:
		return []*a.Expr{o.AsAssign().LHS(), o.AsAssign().RHS()}
	case a.KExpr:
		return []*a.Expr{o.AsExpr()}
	case a.KIf:
		return []*a.Expr{o.AsIf().Condition()}
	case a.KWhile:
		return []*a.Expr{o.AsWhile().Condition()}
	case a.KIOManip:
		m := o.AsIOManip()
		return []*a.Expr{m.IO(), m.Arg1(), m.HistoryPosition()}
	case a.KRet:
		return []*a.Expr{o.AsRet().Value()}
	case a.KIterate:
		var out []*a.Expr
		for _, as := range o.AsIterate().Assigns() {
			if as.Kind() == a.KAssign {
				out = append(out, as.AsAssign().RHS())
			}
		}
		return out
	}
	return nil
}

// ---------------------------------------------------------------- keys

// whKeyer computes canonical keys of expressions of one function.
type whKeyer struct {
	p      *WPkg
	locals map[t.ID]bool
}

var whCommutative = map[t.ID]bool{
	t.IDXBinaryPlus: true, t.IDXBinaryStar: true, t.IDXBinaryAmp: true, t.IDXBinaryPipe: true, t.IDXBinaryHat: true,
	t.IDXBinaryTildeModPlus: true, t.IDXBinaryTildeModStar: true, t.IDXBinaryTildeSatPlus: true,
	t.IDXBinaryNotEq: true, t.IDXBinaryEqEq: true, t.IDXBinaryAnd: true, t.IDXBinaryOr: true,
	t.IDXAssociativePlus: true, t.IDXAssociativeStar: true, t.IDXAssociativeAmp: true, t.IDXAssociativePipe: true,
	t.IDXAssociativeHat: true, t.IDXAssociativeAnd: true, t.IDXAssociativeOr: true,
}

// binary and associative spellings of the same operator share a key name
var whOpName = map[t.ID]string{
	t.IDXAssociativePlus: "+", t.IDXBinaryPlus: "+", t.IDXAssociativeStar: "*", t.IDXBinaryStar: "*",
	t.IDXAssociativeAmp: "&", t.IDXBinaryAmp: "&", t.IDXAssociativePipe: "|", t.IDXBinaryPipe: "|",
	t.IDXAssociativeHat: "^", t.IDXBinaryHat: "^", t.IDXAssociativeAnd: "and", t.IDXBinaryAnd: "and",
	t.IDXAssociativeOr: "or", t.IDXBinaryOr: "or",
}

func (k *whKeyer) opName(op t.ID) string {
	if s, ok := whOpName[op]; ok {
		return s
	}
	// disambiguated (X) operators have no spelling in the token map
	return fmt.Sprintf("op%#x", uint32(op))
}

func (k *whKeyer) key(e *a.Expr) string {
	if e == nil {
		return "_"
	}
	if cv := e.ConstValue(); cv != nil && (e.MType() == nil || !e.MType().IsStatus()) {
		return "#" + cv.String()
	}
	op := e.Operator()
	switch {
	case op == 0:
		return e.Ident().Str(k.p.TM)
	case op == a.ExprOperatorSelector:
		return k.key(e.LHS().AsExpr()) + "." + e.Ident().Str(k.p.TM)
	case op == a.ExprOperatorIndex:
		return k.key(e.LHS().AsExpr()) + "[" + k.key(e.RHS().AsExpr()) + "]"
	case op == a.ExprOperatorSlice:
		return k.key(e.LHS().AsExpr()) + "[" + k.key(e.MHS().AsExpr()) + ".." + k.key(e.RHS().AsExpr()) + "]"
	case op == a.ExprOperatorCall:
		var args []string
		for _, o := range e.Args() {
			if o.Kind() == a.KArg {
				args = append(args, o.AsArg().Name().Str(k.p.TM)+":"+k.key(o.AsArg().Value()))
			}
		}
		return k.key(e.LHS().AsExpr()) + "(" + strings.Join(args, ",") + ")"
	case op == a.ExprOperatorList:
		var args []string
		for _, o := range e.Args() {
			args = append(args, k.key(o.AsExpr()))
		}
		return "[" + strings.Join(args, ",") + "]"
	case op == t.IDXBinaryAs:
		return "as(" + k.key(e.LHS().AsExpr()) + "," + e.RHS().AsTypeExpr().Str(k.p.TM) + ")"
	case op.IsXUnaryOp():
		return k.opName(op) + "(" + k.key(e.RHS().AsExpr()) + ")"
	case op.IsXAssociativeOp():
		var args []string
		for _, o := range e.Args() {
			args = append(args, k.key(o.AsExpr()))
		}
		if whCommutative[op] {
			sort.Strings(args)
		}
		return k.opName(op) + "(" + strings.Join(args, ",") + ")"
	case op.IsXBinaryOp():
		l, r := k.key(e.LHS().AsExpr()), k.key(e.RHS().AsExpr())
		switch op {
		case t.IDXBinaryGreaterThan:
			op, l, r = t.IDXBinaryLessThan, r, l
		case t.IDXBinaryGreaterEq:
			op, l, r = t.IDXBinaryLessEq, r, l
		case t.IDXBinaryNotEq:
			// the key of `a <> b` is the key of `a == b`; the evaluator negates
			op = t.IDXBinaryEqEq
		}
		if whCommutative[op] && r < l {
			l, r = r, l
		}
		return k.opName(op) + "(" + l + "," + r + ")"
	}
	return "?" + e.Str(k.p.TM)
}

// roots returns the configuration roots ("this.f", "args.x") an expression
// mentions and whether it is trackable: no calls, no local variables.
func (k *whKeyer) roots(e *a.Expr) (roots []string, trackable bool) {
	trackable = true
	seen := map[string]bool{}
	var walk func(e *a.Expr)
	walk = func(e *a.Expr) {
		if e == nil {
			return
		}
		if e.ConstValue() != nil {
			return
		}
		switch op := e.Operator(); {
		case op == 0:
			id := e.Ident()
			if k.locals[id] || id == t.IDThis || id == t.IDArgs || id == t.IDCoroutineResumed {
				// a bare `this`/`args` (not under a selector) or a local
				trackable = false
			}
			return
		case op == a.ExprOperatorSelector:
			if f := e.IsThisDotFoo(); f != 0 {
				seen["this."+f.Str(k.p.TM)] = true
				return
			}
			if f := e.IsArgsDotFoo(); f != 0 {
				seen["args."+f.Str(k.p.TM)] = true
				return
			}
			walk(e.LHS().AsExpr())
			return
		case op == a.ExprOperatorCall:
			trackable = false
			return
		case op == t.IDXBinaryAs:
			walk(e.LHS().AsExpr())
			return
		}
		for _, o := range e.AsNode().AsRaw().SubNodes() {
			if o != nil && o.Kind() == a.KExpr {
				walk(o.AsExpr())
			}
		}
		for _, o := range e.Args() {
			if o.Kind() == a.KExpr {
				walk(o.AsExpr())
			}
		}
	}
	walk(e)
	for r := range seen {
		roots = append(roots, r)
	}
	sort.Strings(roots)
	return roots, trackable
}

// rootOf returns "this.f" / "args.x" / "local:<name>" for the object an
// l-value or receiver expression lives in.
func (k *whKeyer) rootOf(e *a.Expr) string {
	for e != nil {
		if f := e.IsThisDotFoo(); f != 0 {
			return "this." + f.Str(k.p.TM)
		}
		if f := e.IsArgsDotFoo(); f != 0 {
			return "args." + f.Str(k.p.TM)
		}
		if e.Operator() == 0 {
			if e.Ident() == t.IDThis {
				return "this"
			}
			return "local:" + e.Ident().Str(k.p.TM)
		}
		if e.Operator() == a.ExprOperatorCall {
			e = e.LHS().AsExpr()
			continue
		}
		if e.LHS() == nil {
			return ""
		}
		e = e.LHS().AsExpr()
	}
	return ""
}

// ---------------------------------------------------------------- facts

type whFact struct {
	eq     *big.Int
	neq    []*big.Int
	roots  []string
	pinned bool // a standing assumption of the query: never dropped
}

type whFacts map[string]*whFact

func (fs whFacts) clone() whFacts {
	o := make(whFacts, len(fs)+1)
	for k, v := range fs {
		o[k] = v
	}
	return o
}

func (fs whFacts) canon() string {
	keys := make([]string, 0, len(fs))
	for k := range fs {
		keys = append(keys, k)
	}
	sort.Strings(keys)
	var b strings.Builder
	for _, k := range keys {
		f := fs[k]
		b.WriteString(k)
		if f.eq != nil {
			b.WriteString("=" + f.eq.String())
		} else {
			ns := make([]string, len(f.neq))
			for i, n := range f.neq {
				ns[i] = n.String()
			}
			sort.Strings(ns)
			b.WriteString("!=" + strings.Join(ns, ","))
		}
		b.WriteByte(';')
	}
	return b.String()
}

// kill drops the facts that mention one of the roots.
func (fs whFacts) kill(roots map[string]bool) whFacts {
	var out whFacts
	for k, f := range fs {
		if f.pinned {
			continue
		}
		for _, r := range f.roots {
			if roots[r] {
				if out == nil {
					out = fs.clone()
				}
				delete(out, k)
				break
			}
		}
	}
	if out == nil {
		return fs
	}
	return out
}

type whTri int

const (
	whU whTri = iota
	whT
	whF
)

func whTriOf(b bool) whTri {
	if b {
		return whT
	}
	return whF
}
func (v whTri) not() whTri {
	switch v {
	case whT:
		return whF
	case whF:
		return whT
	}
	return whU
}

func whIsAnd(op t.ID) bool { return op == t.IDXBinaryAnd || op == t.IDXAssociativeAnd }
func whIsOr(op t.ID) bool  { return op == t.IDXBinaryOr || op == t.IDXAssociativeOr }

func whOperands(e *a.Expr) []*a.Expr {
	if e.Operator().IsXAssociativeOp() {
		var out []*a.Expr
		for _, o := range e.Args() {
			out = append(out, o.AsExpr())
		}
		return out
	}
	return []*a.Expr{e.LHS().AsExpr(), e.RHS().AsExpr()}
}

// whConstSide splits `X op c` into the non-constant side and the constant.
func whConstSide(e *a.Expr) (x *a.Expr, c *big.Int) {
	l, r := e.LHS().AsExpr(), e.RHS().AsExpr()
	if l.ConstValue() == nil && r.ConstValue() != nil {
		return l, r.ConstValue()
	}
	if r.ConstValue() == nil && l.ConstValue() != nil {
		return r, l.ConstValue()
	}
	return nil, nil
}

// eval evaluates a condition under the facts (Kleene logic).
func (k *whKeyer) eval(e *a.Expr, fs whFacts) whTri {
	if e == nil {
		return whU
	}
	if cv := e.ConstValue(); cv != nil {
		return whTriOf(cv.Sign() != 0)
	}
	op := e.Operator()
	switch {
	case op == t.IDXUnaryNot:
		return k.eval(e.RHS().AsExpr(), fs).not()
	case whIsAnd(op):
		res := whT
		for _, o := range whOperands(e) {
			switch k.eval(o, fs) {
			case whF:
				return whF
			case whU:
				res = whU
			}
		}
		return res
	case whIsOr(op):
		res := whF
		for _, o := range whOperands(e) {
			switch k.eval(o, fs) {
			case whT:
				return whT
			case whU:
				res = whU
			}
		}
		return res
	case op == t.IDXBinaryEqEq || op == t.IDXBinaryNotEq:
		v := whU
		if x, c := whConstSide(e); x != nil {
			if f := fs[k.key(x)]; f != nil {
				if f.eq != nil {
					v = whTriOf(f.eq.Cmp(c) == 0)
				} else {
					for _, n := range f.neq {
						if n.Cmp(c) == 0 {
							v = whF
						}
					}
				}
			}
		} else if f := fs[k.key(e)]; f != nil && f.eq != nil {
			v = whTriOf(f.eq.Sign() != 0)
		}
		if op == t.IDXBinaryNotEq {
			return v.not()
		}
		return v
	}
	if f := fs[k.key(e)]; f != nil && f.eq != nil {
		return whTriOf(f.eq.Sign() != 0)
	}
	return whU
}

var whBig0, whBig1 = big.NewInt(0), big.NewInt(1)

// assume returns the facts after learning that e evaluates to val; ok=false
// when that contradicts what is known. Only trackable atoms are recorded.
func (k *whKeyer) assume(e *a.Expr, val bool, fs whFacts) (whFacts, bool) {
	switch v := k.eval(e, fs); {
	case v == whT && !val, v == whF && val:
		return fs, false
	case v != whU:
		return fs, true
	}
	op := e.Operator()
	switch {
	case op == t.IDXUnaryNot:
		return k.assume(e.RHS().AsExpr(), !val, fs)
	case whIsAnd(op) || whIsOr(op):
		// and=true / or=false: every operand is decided; and=false / or=true:
		// decided only when all whOperands but one are known
		all := (whIsAnd(op) && val) || (whIsOr(op) && !val)
		if all {
			ok := true
			for _, o := range whOperands(e) {
				if fs, ok = k.assume(o, val, fs); !ok {
					return fs, false
				}
			}
			return fs, true
		}
		var unknown *a.Expr
		n := 0
		for _, o := range whOperands(e) {
			if k.eval(o, fs) == whU {
				unknown = o
				n++
			}
		}
		if n == 1 {
			return k.assume(unknown, val, fs)
		}
		return fs, true
	case op == t.IDXBinaryEqEq || op == t.IDXBinaryNotEq:
		isEq := (op == t.IDXBinaryEqEq) == val
		if x, c := whConstSide(e); x != nil {
			roots, ok := k.roots(x)
			if !ok {
				return fs, true
			}
			key := k.key(x)
			out := fs.clone()
			if isEq {
				out[key] = &whFact{eq: c, roots: roots}
			} else {
				nf := &whFact{roots: roots}
				if old := fs[key]; old != nil {
					nf.neq = append(nf.neq, old.neq...)
					nf.pinned = old.pinned
				}
				nf.neq = append(nf.neq, c)
				out[key] = nf
			}
			return out, true
		}
		roots, ok := k.roots(e)
		if !ok {
			return fs, true
		}
		out := fs.clone()
		if isEq {
			out[k.key(e)] = &whFact{eq: whBig1, roots: roots}
		} else {
			out[k.key(e)] = &whFact{eq: whBig0, roots: roots}
		}
		return out, true
	}
	roots, ok := k.roots(e)
	if !ok {
		return fs, true
	}
	out := fs.clone()
	if val {
		out[k.key(e)] = &whFact{eq: whBig1, roots: roots}
	} else {
		out[k.key(e)] = &whFact{eq: whBig0, roots: roots}
	}
	return out, true
}

// ---------------------------------------------------------------- mod-sets

// whModsets: for each method of a package, the receiver fields ("this.f") it
// may write — by assignment, by an impure call on the field, or through
// another method of the receiver (choose-dispatched implementations included).
type whModsets struct {
	p      *WPkg
	direct map[string]map[string]bool // "recv.func" -> roots
	calls  map[string]map[string]bool // "recv.func" -> callee "recv.func"
	alias  map[string]map[string]bool // choosy "recv.func" -> implementations
	full   map[string]map[string]bool
}

func (p *WPkg) whFname(f *a.Func) string {
	return p.str(f.Receiver()[1]) + "." + p.str(f.FuncName())
}

func whBuildModsets(p *WPkg) *whModsets {
	m := &whModsets{p: p, direct: map[string]map[string]bool{}, calls: map[string]map[string]bool{}, alias: map[string]map[string]bool{}}
	for _, f := range p.Funcs {
		name := p.whFname(f)
		recv := p.str(f.Receiver()[1])
		d, c := map[string]bool{}, map[string]bool{}
		k := &whKeyer{p: p, locals: map[t.ID]bool{}}
		whStmtWalk(f.Body(), func(o *a.Node) {
			switch o.Kind() {
			case a.KAssign:
				if r := k.rootOf(o.AsAssign().LHS()); strings.HasPrefix(r, "this.") {
					d[r] = true
				}
			case a.KChoose:
				ch := o.AsChoose()
				key := recv + "." + p.str(ch.Name())
				if m.alias[key] == nil {
					m.alias[key] = map[string]bool{}
				}
				for _, x := range ch.Args() {
					m.alias[key][recv+"."+p.str(x.AsExpr().Ident())] = true
				}
			case a.KIterate:
				for _, as := range o.AsIterate().Assigns() {
					if as.Kind() == a.KAssign {
						if r := k.rootOf(as.AsAssign().LHS()); strings.HasPrefix(r, "this.") {
							d[r] = true
						}
					}
				}
			}
			for _, e := range whStmtExprs(o) {
				whWalkExpr(e, func(x *a.Expr) {
					if x.Operator() != a.ExprOperatorCall || x.Effect().Pure() {
						return
					}
					rcv, meth, _, ok := x.IsMethodCall()
					if !ok {
						return
					}
					if rcv.Operator() == 0 && rcv.Ident() == t.IDThis {
						c[recv+"."+p.str(meth)] = true
					} else if r := k.rootOf(rcv); strings.HasPrefix(r, "this.") {
						d[r] = true
					}
				})
			}
		})
		m.direct[name], m.calls[name] = d, c
	}
	m.full = map[string]map[string]bool{}
	for n, d := range m.direct {
		s := map[string]bool{}
		for r := range d {
			s[r] = true
		}
		m.full[n] = s
	}
	for changed := true; changed; {
		changed = false
		for n := range m.full {
			for callee := range m.calls[n] {
				targets := []string{callee}
				for al := range m.alias[callee] {
					targets = append(targets, al)
				}
				for _, tg := range targets {
					for r := range m.full[tg] {
						if !m.full[n][r] {
							m.full[n][r] = true
							changed = true
						}
					}
				}
			}
		}
	}
	return m
}

// of returns what a call of receiver method `recv.meth` may write.
func (m *whModsets) of(recvMeth string) map[string]bool {
	out := map[string]bool{}
	for r := range m.full[recvMeth] {
		out[r] = true
	}
	for al := range m.alias[recvMeth] {
		for r := range m.full[al] {
			out[r] = true
		}
	}
	return out
}

// transfer applies the effect of executing a (non-branch) node on the facts:
// written fields/parameters lose their facts; `this.f = <const>` is learnt.
func (g *whCFG) transfer(k *whKeyer, m *whModsets, n *whNode, fs whFacts) whFacts {
	if n.stmt == nil || len(fs) == 0 && n.stmt.Kind() != a.KAssign {
		return fs
	}
	killed := map[string]bool{}
	recv := g.p.str(g.f.Receiver()[1])
	for _, x := range n.callsOf() {
		if x.Effect().Pure() {
			continue
		}
		rcv, meth, _, ok := x.IsMethodCall()
		if !ok {
			continue
		}
		if rcv.Operator() == 0 && rcv.Ident() == t.IDThis {
			for r := range m.of(recv + "." + g.p.str(meth)) {
				killed[r] = true
			}
		} else if r := k.rootOf(rcv); strings.HasPrefix(r, "this.") {
			killed[r] = true
		}
	}
	if n.stmt.Kind() == a.KAssign {
		as := n.stmt.AsAssign()
		if r := k.rootOf(as.LHS()); r != "" {
			killed[r] = true
		}
		fs = fs.kill(killed)
		if as.LHS() != nil && as.Operator() == t.IDEq && as.RHS().ConstValue() != nil && as.LHS().ConstValue() == nil {
			if roots, ok := k.roots(as.LHS()); ok && len(roots) > 0 {
				if old := fs[k.key(as.LHS())]; old == nil || !old.pinned {
					fs = fs.clone()
					fs[k.key(as.LHS())] = &whFact{eq: as.RHS().ConstValue(), roots: roots}
				}
			}
		}
		return fs
	}
	return fs.kill(killed)
}

func (g *whCFG) pos(n *whNode) string {
	return fmt.Sprintf("%s:%d", g.f.Filename(), n.line)
}
