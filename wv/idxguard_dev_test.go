package main

import (
	"fmt"
	"go/token"
	"os"
	"path/filepath"
	"testing"

	"golang.org/x/tools/go/packages"

	"wv/core"
)

func igLoadSrc(t *testing.T, src string) (*core.GoProg, *packages.Package) {
	dir := t.TempDir()
	os.WriteFile(filepath.Join(dir, "go.mod"), []byte("module example.com/x\n\ngo 1.16\n"), 0o644)
	os.WriteFile(filepath.Join(dir, "x.go"), []byte(src), 0o644)
	cfg := &packages.Config{
		Mode: packages.NeedName | packages.NeedFiles | packages.NeedCompiledGoFiles | packages.NeedImports |
			packages.NeedDeps | packages.NeedTypes | packages.NeedSyntax | packages.NeedTypesInfo | packages.NeedTypesSizes | packages.NeedModule,
		Dir: dir, Env: core.GoEnv(), Fset: token.NewFileSet(),
	}
	pkgs, err := packages.Load(cfg, ".")
	if err != nil || len(pkgs) != 1 || len(pkgs[0].Errors) > 0 {
		t.Fatalf("load: %v %v", err, pkgs[0].Errors)
	}
	gp := &core.GoProg{Fset: cfg.Fset, ByPth: map[string]*packages.Package{}, Repo: dir, Pkgs: pkgs}
	packages.Visit(pkgs, nil, func(p *packages.Package) { gp.ByPth[p.PkgPath] = p })
	return gp, pkgs[0]
}

func TestIgDev(t *testing.T) {
	src := os.Getenv("IG_SRC")
	if src == "" {
		t.Skip("IG_SRC not set")
	}
	b, err := os.ReadFile(src)
	if err != nil {
		t.Fatal(err)
	}
	gp, p := igLoadSrc(t, string(b))
	P := newIgPkg(gp, p)
	P.analyse()
	for _, F := range P.fns {
		R := P.runs[F]
		if R == nil {
			continue
		}
		for _, s := range R.sites {
			fmt.Printf("%s %s %-6s %-30s %s\n", F.name, gp.Fset.Position(s.pos), s.class, s.text, s.why)
		}
	}
}
