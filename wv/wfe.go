package main

// Tier W: the Wuffs programs of std/, parsed and type-annotated by the
// repository's own front end (lang/token, lang/parse, lang/check), which is
// linked from /repo via the module replace directive. The front end is
// trusted base for tier-W rules; it is the subject of tier-G rules.

import (
	"fmt"
	"os"
	"path/filepath"
	"sort"
	"strings"

	"wv/core"

	a "github.com/google/wuffs/lang/ast"
	"github.com/google/wuffs/lang/check"
	"github.com/google/wuffs/lang/parse"
	t "github.com/google/wuffs/lang/token"
)

// WPkg is one type-checked Wuffs package.
type WPkg struct {
	Name    string
	Dir     string
	CPath   string // generated C for this package
	Corpus  bool   // a /verif/corpus program, not std
	TM      *t.Map
	Files   []*a.File
	Structs []*a.Struct
	Funcs   []*a.Func
	Consts  []*a.Const
	Status  []*a.Status
}

// loadWuffsDir parses and checks the *.wuffs files of dir (sorted), resolving
// `use` through genWuffs (the generated use-stubs of the scratch build).
func loadWuffsDir(name, dir, genWuffs string) (*WPkg, error) {
	ents, err := os.ReadDir(dir)
	if err != nil {
		return nil, err
	}
	var names []string
	for _, e := range ents {
		if !e.IsDir() && strings.HasSuffix(e.Name(), ".wuffs") {
			names = append(names, e.Name())
		}
	}
	sort.Strings(names)
	if len(names) == 0 {
		return nil, fmt.Errorf("no .wuffs files in %s", dir)
	}
	p := &WPkg{Name: name, Dir: dir, TM: &t.Map{}}
	for _, n := range names {
		fn := filepath.Join(dir, n)
		src, err := os.ReadFile(fn)
		if err != nil {
			return nil, err
		}
		tokens, _, err := t.Tokenize(p.TM, fn, src)
		if err != nil {
			return nil, err
		}
		f, err := parse.Parse(p.TM, fn, tokens, nil)
		if err != nil {
			return nil, err
		}
		p.Files = append(p.Files, f)
	}
	resolveUse := func(usePath string) ([]byte, error) {
		b, err := os.ReadFile(filepath.Join(genWuffs, filepath.FromSlash(usePath)))
		if err != nil {
			b, err = os.ReadFile(filepath.Join(genWuffs, filepath.FromSlash(usePath)+".wuffs"))
		}
		return b, err
	}
	if _, err := check.Check(p.TM, p.Files, resolveUse); err != nil {
		return nil, fmt.Errorf("check %s: %v", name, err)
	}
	for _, f := range p.Files {
		for _, n := range f.TopLevelDecls() {
			switch n.Kind() {
			case a.KStruct:
				p.Structs = append(p.Structs, n.AsStruct())
			case a.KFunc:
				p.Funcs = append(p.Funcs, n.AsFunc())
			case a.KConst:
				p.Consts = append(p.Consts, n.AsConst())
			case a.KStatus:
				p.Status = append(p.Status, n.AsStatus())
			}
		}
	}
	return p, nil
}

// loadStd loads every std package present in the scratch build.
func loadStd(c *core.Ctx, cb *core.CBuild) []*WPkg {
	var out []*WPkg
	nf, ns := 0, 0
	for _, name := range cb.StdPackages() {
		p, err := loadWuffsDir(name, filepath.Join(cb.Root, "std", name), cb.GenWuffs)
		if err != nil {
			c.Infra("tier W: %v", err)
		}
		p.CPath = cb.PkgC[name]
		out = append(out, p)
		nf += len(p.Funcs)
		ns += len(p.Structs)
	}
	c.Analysed("wuffs_packages", len(out))
	c.Analysed("wuffs_funcs", nf)
	c.Analysed("wuffs_structs", ns)
	return out
}

func (p *WPkg) str(id t.ID) string { return id.Str(p.TM) }

// funcCName is the C identifier cgen gives a method: wuffs_<pkg>__<struct>__<method>.
func (p *WPkg) funcCName(f *a.Func) string {
	return "wuffs_" + p.Name + "__" + p.str(f.Receiver()[1]) + "__" + p.str(f.FuncName())
}

func (p *WPkg) structCName(s *a.Struct) string {
	return "wuffs_" + p.Name + "__" + p.str(s.QID()[1])
}

// structOf finds the struct a method belongs to.
func (p *WPkg) structOf(f *a.Func) *a.Struct {
	for _, s := range p.Structs {
		if s.QID()[1] == f.Receiver()[1] {
			return s
		}
	}
	return nil
}

// loadCorpus compiles every /verif/corpus/<group>/*.wuffs program (one package
// per file, package name = file name without extension) with the scratch
// build's compiler and loads it through the front end. A corpus program the
// working tree's compiler rejects is reported as a failed obligation: the
// corpus only contains programs the unchanged compiler accepts.
func loadCorpus(c *core.Ctx, cb *core.CBuild, group string) []*WPkg {
	dir := filepath.Join(c.Home, "corpus", group)
	ents, err := os.ReadDir(dir)
	if err != nil {
		c.Undecided("corpus."+group, "corpus/"+group, "corpus directory readable", err.Error())
		return nil
	}
	var out []*WPkg
	var names []string
	for _, e := range ents {
		if strings.HasSuffix(e.Name(), ".wuffs") {
			names = append(names, e.Name())
		}
	}
	sort.Strings(names)
	for _, n := range names {
		pkg := strings.TrimSuffix(n, ".wuffs")
		sdir, cpath, err := cb.GenPackage(pkg, []string{filepath.Join(dir, n)})
		if err != nil {
			c.Fail("corpus.compile", "corpus/"+group+"/"+n, "the working tree's compiler accepts and translates this corpus program", 1, err.Error())
			continue
		}
		p, err := loadWuffsDir(pkg, sdir, cb.GenWuffs)
		if err != nil {
			c.Fail("corpus.compile", "corpus/"+group+"/"+n, "the front end accepts this corpus program", 1, err.Error())
			continue
		}
		p.CPath, p.Corpus = cpath, true
		out = append(out, p)
	}
	c.Analysed("corpus_"+group, names)
	return out
}
