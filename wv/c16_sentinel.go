package main

// C16 rule family S — sentinel discipline (engine E8) on go/ssa.
//
// lib/flatecut signals "input exhausted / invalid code" by returning the
// int32 constant mostNegativeInt32 from bitstream.take, huffman.slowDecode and
// (by tail call) huffman.decode. Callers add small constants or RFC table
// entries to the result *before* testing its sign, so the rule is stated over
// SSA values:
//
//   carrier  = the result of a call to a sentinel function; `c + carrier`
//              for a constant 0 <= c <= 2^30; `table[k] + carrier` for a
//              package-level int32 array; a phi with a carrier arriving over
//              an edge on which it has not been sign-tested.
//   sign test = `v < 0`, `v <= -1`, `v >= 0`, `v > -1` (either operand order,
//              through `!`) feeding an If; its non-negative edge is the
//              successor on which v >= 0.
//   use      = every other instruction that reads a carrier (index, slice
//              bound, make size, conversion, comparison with anything but the
//              sign constant, arithmetic with a non-constant, store, call
//              argument).
//
// S.use:    every use of a carrier is dominated by the non-negative edge of a
//           sign test on that carrier (or on the value it was derived from by
//           adding a constant).
// S.tested: every call site's result reaches a sign test (or is returned by
//           a function that is thereby itself a sentinel function).
// S.neg:    the negative edge of a sign test reaches only returns of a
//           non-nil error (functions returning error).
// S.wrap:   `table[k] + take(extra[k])` cannot wrap to a non-negative value:
//           where table[k] is the sentinel, extra[k] is 0, and take(0) cannot
//           return the sentinel.

import (
	"fmt"
	"go/constant"
	"go/token"
	"go/types"
	"sort"
	"strings"

	"golang.org/x/tools/go/ssa"

	"wv/core"
)

type c16SentSite struct {
	fn     *ssa.Function
	call   *ssa.Call
	callee *ssa.Function
	ord    int
}

type c16SentTest struct {
	val    ssa.Value
	cmp    *ssa.BinOp
	blk    *ssa.BasicBlock // block ending in the If
	nonneg int             // successor index on which val >= 0
}

type c16SentUse struct {
	val   ssa.Value
	instr ssa.Instruction
	pred  *ssa.BasicBlock // for phi uses: the incoming edge's source
	ok    bool
}

type c16TableAdd struct {
	sum   *ssa.BinOp
	table *ssa.Global
	idx   ssa.Value
	other ssa.Value
}

type c16SentFn struct {
	fn         *ssa.Function
	sites      []*c16SentSite
	carriers   map[ssa.Value]bool
	derives    map[ssa.Value][]ssa.Value // v -> values derived from v
	constPar   map[ssa.Value]ssa.Value   // c + v -> v
	tests      []*c16SentTest
	testsOf    map[ssa.Value][]*c16SentTest
	uses       []*c16SentUse
	tableAdds  []*c16TableAdd
	returned   map[ssa.Value]bool // carriers returned
	reachCache map[[2]int]map[*ssa.BasicBlock]bool
}

type c16SentinelAnalysis struct {
	k        *gctx
	pkg      *ssa.Package
	sentinel int64
	fns      []*ssa.Function
	S        map[*ssa.Function]bool
	res      map[*ssa.Function]*c16SentFn
}

func c16SsaFuncName(fn *ssa.Function) string {
	s := fn.RelString(nil)
	return strings.TrimPrefix(strings.ReplaceAll(s, core.Mod+"/", ""), "")
}

func c16ConstInt(v ssa.Value) (int64, bool) {
	c, ok := v.(*ssa.Const)
	if !ok || c.Value == nil || c.Value.Kind() != constant.Int {
		return 0, false
	}
	return constant.Int64Val(c.Value)
}

func c16IsSignedInt(t types.Type) bool {
	b, ok := t.Underlying().(*types.Basic)
	return ok && b.Info()&types.IsInteger != 0 && b.Info()&types.IsUnsigned == 0
}

// literalSentinelFns: functions with one signed-integer result that return
// the sentinel constant.
func (a *c16SentinelAnalysis) seed() {
	a.S = map[*ssa.Function]bool{}
	for _, fn := range a.fns {
		res := fn.Signature.Results()
		if res.Len() != 1 || !c16IsSignedInt(res.At(0).Type()) {
			continue
		}
		for _, b := range fn.Blocks {
			for _, in := range b.Instrs {
				if r, ok := in.(*ssa.Return); ok && len(r.Results) == 1 {
					if v, ok := c16ConstInt(r.Results[0]); ok && v == a.sentinel {
						a.S[fn] = true
					}
				}
			}
		}
	}
}

func (r *c16SentFn) reachWithout(b *ssa.BasicBlock, succ int) map[*ssa.BasicBlock]bool {
	key := [2]int{b.Index, succ}
	if m, ok := r.reachCache[key]; ok {
		return m
	}
	seen := map[*ssa.BasicBlock]bool{}
	if len(r.fn.Blocks) > 0 {
		stack := []*ssa.BasicBlock{r.fn.Blocks[0]}
		seen[r.fn.Blocks[0]] = true
		for len(stack) > 0 {
			x := stack[len(stack)-1]
			stack = stack[:len(stack)-1]
			for i, s := range x.Succs {
				if x == b && i == succ {
					continue
				}
				if !seen[s] {
					seen[s] = true
					stack = append(stack, s)
				}
			}
		}
	}
	r.reachCache[key] = seen
	return seen
}

// edgeDominates: every path from entry to target traverses edge b -> b.Succs[succ].
func (r *c16SentFn) edgeDominates(b *ssa.BasicBlock, succ int, target *ssa.BasicBlock) bool {
	if len(b.Succs) != 2 || b.Succs[0] == b.Succs[1] {
		return false
	}
	return !r.reachWithout(b, succ)[target]
}

// clearedAt: v is known non-negative on entry to block blk.
func (r *c16SentFn) clearedAt(v ssa.Value, blk *ssa.BasicBlock) bool {
	for depth := 0; v != nil && depth < 8; depth++ {
		for _, t := range r.testsOf[v] {
			if r.edgeDominates(t.blk, t.nonneg, blk) {
				return true
			}
		}
		v = r.constPar[v]
	}
	return false
}

// clearedOnEdge: v is known non-negative whenever edge p -> j is traversed.
func (r *c16SentFn) clearedOnEdge(v ssa.Value, p, j *ssa.BasicBlock) bool {
	for depth := 0; v != nil && depth < 8; depth++ {
		for _, t := range r.testsOf[v] {
			if len(t.blk.Succs) != 2 || t.blk.Succs[0] == t.blk.Succs[1] {
				continue
			}
			if !r.reachWithout(t.blk, t.nonneg)[p] {
				return true
			}
			if p == t.blk && t.blk.Succs[t.nonneg] == j {
				return true
			}
		}
		v = r.constPar[v]
	}
	return false
}

// c16SignTest classifies cmp as an exact sign test of v; returns the successor
// index (0 = true branch) on which v >= 0.
func c16SignTest(cmp *ssa.BinOp, v ssa.Value) (nonnegOnTrue bool, ok bool) {
	op := cmp.Op
	var kv ssa.Value
	switch {
	case cmp.X == v && cmp.Y != v:
		kv = cmp.Y
	case cmp.Y == v && cmp.X != v:
		kv = cmp.X
		switch op {
		case token.LSS:
			op = token.GTR
		case token.LEQ:
			op = token.GEQ
		case token.GTR:
			op = token.LSS
		case token.GEQ:
			op = token.LEQ
		}
	default:
		return false, false
	}
	k, isk := c16ConstInt(kv)
	if !isk {
		return false, false
	}
	switch {
	case op == token.LSS && k == 0, op == token.LEQ && k == -1:
		return false, true // true branch: negative
	case op == token.GEQ && k == 0, op == token.GTR && k == -1:
		return true, true
	}
	return false, false
}

// c16IfOf follows a boolean through `!` to the If it controls.
func c16IfOf(b ssa.Value, flip bool) (*ssa.If, bool, bool) {
	refs := b.Referrers()
	if refs == nil {
		return nil, false, false
	}
	var live []ssa.Instruction
	for _, r := range *refs {
		if _, ok := r.(*ssa.DebugRef); ok {
			continue
		}
		live = append(live, r)
	}
	if len(live) != 1 {
		return nil, false, false
	}
	switch x := live[0].(type) {
	case *ssa.If:
		return x, flip, true
	case *ssa.UnOp:
		if x.Op == token.NOT {
			return c16IfOf(x, !flip)
		}
	}
	return nil, false, false
}

func (a *c16SentinelAnalysis) tableGlobal(v ssa.Value) (*ssa.Global, ssa.Value, bool) {
	u, ok := v.(*ssa.UnOp)
	if !ok || u.Op != token.MUL {
		return nil, nil, false
	}
	ia, ok := u.X.(*ssa.IndexAddr)
	if !ok {
		return nil, nil, false
	}
	g, ok := ia.X.(*ssa.Global)
	if !ok || g.Pkg != a.pkg {
		return nil, nil, false
	}
	pt, ok := g.Type().Underlying().(*types.Pointer)
	if !ok {
		return nil, nil, false
	}
	if _, ok := pt.Elem().Underlying().(*types.Array); !ok {
		return nil, nil, false
	}
	return g, ia.Index, true
}

func (a *c16SentinelAnalysis) analyse(fn *ssa.Function) *c16SentFn {
	r := &c16SentFn{fn: fn, carriers: map[ssa.Value]bool{}, derives: map[ssa.Value][]ssa.Value{}, constPar: map[ssa.Value]ssa.Value{},
		testsOf: map[ssa.Value][]*c16SentTest{}, returned: map[ssa.Value]bool{}, reachCache: map[[2]int]map[*ssa.BasicBlock]bool{}}
	var work []ssa.Value
	add := func(v, from ssa.Value) {
		if from != nil {
			r.derives[from] = append(r.derives[from], v)
		}
		if !r.carriers[v] {
			r.carriers[v] = true
			work = append(work, v)
		}
	}
	ord := 0
	for _, b := range fn.Blocks {
		for _, in := range b.Instrs {
			call, ok := in.(*ssa.Call)
			if !ok {
				continue
			}
			callee := call.Common().StaticCallee()
			if callee == nil || !a.S[callee] {
				continue
			}
			ord++
			r.sites = append(r.sites, &c16SentSite{fn: fn, call: call, callee: callee, ord: ord})
			add(call, nil)
		}
	}
	type pendingUse struct {
		v  ssa.Value
		in ssa.Instruction
	}
	var pend []pendingUse
	done := map[ssa.Value]bool{}
	for len(work) > 0 {
		v := work[0]
		work = work[1:]
		if done[v] {
			continue
		}
		done[v] = true
		refs := v.Referrers()
		if refs == nil {
			continue
		}
		// Pass 1: sign tests on v.
		isTest := map[ssa.Instruction]bool{}
		for _, in := range *refs {
			cmp, ok := in.(*ssa.BinOp)
			if !ok {
				continue
			}
			nnTrue, ok := c16SignTest(cmp, v)
			if !ok {
				continue
			}
			ifi, flip, ok := c16IfOf(cmp, false)
			if !ok {
				continue
			}
			if flip {
				nnTrue = !nnTrue
			}
			idx := 1
			if nnTrue {
				idx = 0
			}
			t := &c16SentTest{val: v, cmp: cmp, blk: ifi.Block(), nonneg: idx}
			r.tests = append(r.tests, t)
			r.testsOf[v] = append(r.testsOf[v], t)
			isTest[in] = true
		}
		// Pass 2: derivations, phis, returns, uses.
		for _, in := range *refs {
			if isTest[in] {
				continue
			}
			switch x := in.(type) {
			case *ssa.DebugRef:
				continue
			case *ssa.BinOp:
				if x.Op == token.ADD && x.X != x.Y {
					other := x.X
					if other == v {
						other = x.Y
					}
					if c, ok := c16ConstInt(other); ok && c >= 0 && c <= 1<<30 && c16IsSignedInt(x.Type()) {
						r.constPar[x] = v
						add(x, v)
						continue
					}
					if g, idx, ok := a.tableGlobal(other); ok {
						r.tableAdds = append(r.tableAdds, &c16TableAdd{sum: x, table: g, idx: idx, other: v})
						add(x, v)
						continue
					}
				}
				pend = append(pend, pendingUse{v, in})
			case *ssa.Phi:
				carried := false
				for i, e := range x.Edges {
					if e != v {
						continue
					}
					p := x.Block().Preds[i]
					if !r.clearedOnEdge(v, p, x.Block()) {
						carried = true
					}
				}
				if carried {
					add(x, v)
				}
			case *ssa.Return:
				if !r.clearedAt(v, x.Block()) {
					r.returned[v] = true
				}
			default:
				pend = append(pend, pendingUse{v, in})
			}
		}
	}
	for _, p := range pend {
		u := &c16SentUse{val: p.v, instr: p.in}
		u.ok = r.clearedAt(p.v, p.in.Block())
		r.uses = append(r.uses, u)
	}
	return r
}

// originSites: the call sites from which value v derives.
func (r *c16SentFn) reachFrom(s *c16SentSite) map[ssa.Value]bool {
	seen := map[ssa.Value]bool{s.call: true}
	q := []ssa.Value{s.call}
	for len(q) > 0 {
		v := q[0]
		q = q[1:]
		for _, d := range r.derives[v] {
			if !seen[d] {
				seen[d] = true
				q = append(q, d)
			}
		}
	}
	return seen
}

func c16InstrDesc(in ssa.Instruction) string {
	switch x := in.(type) {
	case *ssa.IndexAddr, *ssa.Index, *ssa.Lookup:
		return "an index expression"
	case *ssa.Slice:
		return "a slice bound"
	case *ssa.MakeSlice:
		return "a make() size"
	case *ssa.Convert:
		return "a conversion to " + x.Type().String()
	case *ssa.BinOp:
		switch x.Op {
		case token.EQL, token.NEQ, token.LSS, token.LEQ, token.GTR, token.GEQ:
			return "a `" + x.Op.String() + "` comparison (not a sign test)"
		}
		return "a `" + x.Op.String() + "` operation"
	case *ssa.Store:
		return "a store"
	case *ssa.Call:
		return "a call argument"
	}
	return "instruction `" + in.String() + "`"
}

func c16SameValue(a, b ssa.Value, depth int) bool {
	if a == b {
		return true
	}
	if depth > 4 {
		return false
	}
	switch x := a.(type) {
	case *ssa.Const:
		y, ok := b.(*ssa.Const)
		return ok && x.Value != nil && y.Value != nil && constant.Compare(x.Value, token.EQL, y.Value) && types.Identical(x.Type(), y.Type())
	case *ssa.BinOp:
		y, ok := b.(*ssa.BinOp)
		return ok && x.Op == y.Op && c16SameValue(x.X, y.X, depth+1) && c16SameValue(x.Y, y.Y, depth+1)
	case *ssa.Convert:
		y, ok := b.(*ssa.Convert)
		return ok && types.Identical(x.Type(), y.Type()) && c16SameValue(x.X, y.X, depth+1)
	}
	return false
}

// cannotReturnSentinelWhenZero: in callee, every `return sentinel` is
// dominated by the true edge of an unsigned `x < param` (or `param > x`)
// comparison, which is infeasible when the parameter is 0.
func (a *c16SentinelAnalysis) cannotReturnSentinelWhenZero(callee *ssa.Function, param int) (bool, string) {
	if param >= len(callee.Params) {
		return false, "parameter not found"
	}
	p := callee.Params[param]
	b, ok := p.Type().Underlying().(*types.Basic)
	if !ok || b.Info()&types.IsUnsigned == 0 {
		return false, "parameter is not an unsigned integer"
	}
	r := &c16SentFn{fn: callee, reachCache: map[[2]int]map[*ssa.BasicBlock]bool{}}
	type edge struct {
		b    *ssa.BasicBlock
		succ int
	}
	var guards []edge
	for _, blk := range callee.Blocks {
		if len(blk.Instrs) == 0 {
			continue
		}
		ifi, ok := blk.Instrs[len(blk.Instrs)-1].(*ssa.If)
		if !ok {
			continue
		}
		cmp, ok := ifi.Cond.(*ssa.BinOp)
		if !ok {
			continue
		}
		if (cmp.Op == token.LSS && cmp.Y == ssa.Value(p) && cmp.X != ssa.Value(p)) || (cmp.Op == token.GTR && cmp.X == ssa.Value(p) && cmp.Y != ssa.Value(p)) {
			guards = append(guards, edge{blk, 0})
		}
	}
	n := 0
	for _, blk := range callee.Blocks {
		for _, in := range blk.Instrs {
			ret, ok := in.(*ssa.Return)
			if !ok || len(ret.Results) != 1 {
				continue
			}
			v, isc := c16ConstInt(ret.Results[0])
			if !isc {
				if _, isCall := ret.Results[0].(*ssa.Call); isCall {
					if cal := ret.Results[0].(*ssa.Call).Common().StaticCallee(); cal != nil && a.S[cal] {
						return false, "returns another sentinel function's result"
					}
				}
				continue
			}
			if v != a.sentinel {
				continue
			}
			n++
			dom := false
			for _, g := range guards {
				if r.edgeDominates(g.b, g.succ, blk) {
					dom = true
				}
			}
			if !dom {
				return false, fmt.Sprintf("%s: this `return sentinel` is not inside a branch guarded by an unsigned `… < %s`", a.k.g.Pos(ret.Pos()), p.Name())
			}
		}
	}
	if n == 0 {
		return false, "no sentinel return found"
	}
	return true, ""
}

type c16TableVals struct {
	vals []int64
	ok   bool
}

func runC16Sentinel(k *gctx, rel string, sentinel int64, tables map[string]c16TableVals) {
	c := k.c
	g := k.g
	p := g.Pkg(rel)
	// SSA for this one package only (dependencies are created from their
	// type information, without bodies): the rule is intra-package.
	prog := ssa.NewProgram(g.Fset, ssa.InstantiateGenerics)
	seenPkg := map[*types.Package]bool{p.Types: true}
	var createDeps func(tp *types.Package)
	createDeps = func(tp *types.Package) {
		for _, imp := range tp.Imports() {
			if !seenPkg[imp] {
				seenPkg[imp] = true
				createDeps(imp)
				prog.CreatePackage(imp, nil, nil, true)
			}
		}
	}
	createDeps(p.Types)
	sp := prog.CreatePackage(p.Types, p.Syntax, p.TypesInfo, false)
	sp.Build()
	a := &c16SentinelAnalysis{k: k, pkg: sp, sentinel: sentinel}
	var addFn func(fn *ssa.Function)
	addFn = func(fn *ssa.Function) {
		if fn == nil || len(fn.Blocks) == 0 {
			return
		}
		a.fns = append(a.fns, fn)
		for _, an := range fn.AnonFuncs {
			addFn(an)
		}
	}
	ssaOf := func(f *core.Func) *ssa.Function {
		if f == nil || f.Obj == nil {
			return nil
		}
		return prog.FuncValue(f.Obj)
	}
	for _, f := range g.AllFuncs(p) {
		addFn(ssaOf(f))
	}
	sort.Slice(a.fns, func(i, j int) bool { return a.fns[i].Pos() < a.fns[j].Pos() })
	a.seed()
	// Fixed point: a function that returns a carrier is a sentinel function.
	for iter := 0; iter < 10; iter++ {
		a.res = map[*ssa.Function]*c16SentFn{}
		changed := false
		for _, fn := range a.fns {
			r := a.analyse(fn)
			a.res[fn] = r
			if len(r.returned) > 0 && !a.S[fn] {
				a.S[fn] = true
				changed = true
			}
		}
		if !changed {
			break
		}
	}
	// Anchors: the three functions named by the property must be in the set.
	var names []string
	for fn := range a.S {
		names = append(names, c16SsaFuncName(fn))
	}
	sort.Strings(names)
	c.Analysed("sentinel_functions", names)
	for _, want := range [][2]string{{"bitstream", "take"}, {"huffman", "decode"}, {"huffman", "slowDecode"}} {
		f := g.FindFunc(rel, want[0], want[1])
		anchor := rel + ".(" + want[0] + ")." + want[1]
		if f == nil {
			c.Undecided("S.fn", anchor, "sentinel-returning function exists", "not found")
			continue
		}
		sf := ssaOf(f)
		c.Check(sf != nil && a.S[sf], "S.fn", anchor, "returns the sentinel mostNegativeInt32 on exhaustion / invalid code (directly or by returning another sentinel function's result), so its callers are subject to the sentinel discipline", 1,
			fmt.Sprintf("%s: no `return mostNegativeInt32` (value %d) and no returned sentinel-call result found: sentinel functions are %v", g.Pos(f.Decl.Pos()), sentinel, names))
	}

	nSites, nTests, nUses := 0, 0, 0
	for _, fn := range a.fns {
		r := a.res[fn]
		if r == nil || len(r.sites) == 0 {
			continue
		}
		fname := c16SsaFuncName(fn)
		for _, s := range r.sites {
			nSites++
			reach := r.reachFrom(s)
			anchor := fmt.Sprintf("%s[call %d: %s]", fname, s.ord, s.callee.Name())
			// S.tested
			tested, returned := 0, false
			for v := range reach {
				tested += len(r.testsOf[v])
				if r.returned[v] {
					returned = true
				}
			}
			switch {
			case tested > 0:
				c.Pass("S.tested", anchor, "the (possibly sentinel) result, or a value derived from it by adding a constant / table entry, is sign-tested", tested, "")
			case returned:
				c.Pass("S.tested", anchor, "the result is returned unchanged, making this function a sentinel function whose own call sites are checked", 1, "")
			default:
				c.Fail("S.tested", anchor, "the (possibly sentinel) result, or a value derived from it by adding a constant / table entry, is sign-tested", 1,
					fmt.Sprintf("%s: result of %s is never compared `< 0` / `>= 0`: exhausted or invalid input goes unnoticed", g.Pos(s.call.Pos()), s.callee.Name()))
			}
			// S.use
			var bad []string
			n := 0
			for _, u := range r.uses {
				if !reach[u.val] {
					continue
				}
				n++
				if !u.ok {
					pos := u.instr.Pos()
					if !pos.IsValid() {
						pos = s.call.Pos()
					}
					bad = append(bad, fmt.Sprintf("%s: %s uses the result of the %s call at %s (possibly plus a constant / table entry) on a path where it has not been sign-tested: on exhausted/invalid input that value is the sentinel %d",
						g.Pos(pos), c16InstrDesc(u.instr), s.callee.Name(), g.Pos(s.call.Pos()), sentinel))
				}
			}
			nUses += n
			claim := "every use of the result (as index, slice/make/loop bound, conversion, comparison or arithmetic operand) is dominated by the non-negative edge of a sign test on it"
			if len(bad) > 0 {
				sort.Strings(bad)
				c.Fail("S.use", anchor, claim, n, strings.Join(bad, "\n"))
			} else if n > 0 {
				c.Pass("S.use", anchor, claim, n, "")
			} else if returned {
				c.Pass("S.use", anchor, "the result has no use other than being returned", 1, "")
			} else {
				c.Pass("S.use", anchor, "the result has no use other than its sign test", 1, "")
			}
		}
		// S.neg per test
		res := fn.Signature.Results()
		lastIsError := res.Len() > 0 && types.Identical(res.At(res.Len()-1).Type(), types.Universe.Lookup("error").Type())
		for i, t := range r.tests {
			nTests++
			anchor := fmt.Sprintf("%s[sign test %d]", fname, i+1)
			neg := t.blk.Succs[1-t.nonneg]
			seen := map[*ssa.BasicBlock]bool{neg: true}
			stack := []*ssa.BasicBlock{neg}
			var bad []string
			nret := 0
			for len(stack) > 0 {
				b := stack[len(stack)-1]
				stack = stack[:len(stack)-1]
				for _, in := range b.Instrs {
					ret, ok := in.(*ssa.Return)
					if !ok {
						continue
					}
					nret++
					switch {
					case lastIsError:
						last := ret.Results[len(ret.Results)-1]
						if !c16NonNilError(last) {
							bad = append(bad, fmt.Sprintf("%s: reachable from the negative branch of the test at %s, returns %s which is not a definite non-nil error", g.Pos(ret.Pos()), g.Pos(t.cmp.Pos()), last.String()))
						}
					case a.S[fn]:
						v, isc := c16ConstInt(ret.Results[0])
						if !(isc && v == sentinel) && !r.carriers[ret.Results[0]] {
							bad = append(bad, fmt.Sprintf("%s: negative branch returns a non-sentinel value", g.Pos(ret.Pos())))
						}
					}
				}
				for _, s := range b.Succs {
					if !seen[s] {
						seen[s] = true
						stack = append(stack, s)
					}
				}
			}
			if !lastIsError && !a.S[fn] {
				c.Pass("S.neg", anchor, "function returns neither an error nor a sentinel: the negative branch only has to avoid using the value (decided by S.use)", 1, "")
				continue
			}
			claim := "the negative branch of the sign test reaches only returns of a non-nil error: exhausted/invalid input is reported, never processed"
			if len(bad) > 0 || nret == 0 {
				if nret == 0 {
					bad = append(bad, fmt.Sprintf("%s: no return reachable from the negative branch", g.Pos(t.cmp.Pos())))
				}
				sort.Strings(bad)
				if len(bad) > 4 {
					bad = append(bad[:4], fmt.Sprintf("… and %d more", len(bad)-4))
				}
				c.Fail("S.neg", anchor, claim, nret, strings.Join(bad, "\n"))
			} else {
				c.Pass("S.neg", anchor, claim, nret, "")
			}
		}
		// S.wrap per table addition
		for i, ta := range r.tableAdds {
			anchor := fmt.Sprintf("%s[%s + sentinel call %d]", fname, ta.table.Name(), i+1)
			claim := fmt.Sprintf("%s[k] + take(extra[k]) cannot wrap around to a non-negative int32: where %s[k] is the sentinel the paired extra-bits entry is 0, and take(0) cannot return the sentinel", ta.table.Name(), ta.table.Name())
			pos := g.Pos(ta.sum.Pos())
			call, ok := ta.other.(*ssa.Call)
			if !ok {
				c.Undecided("S.wrap", anchor, claim, pos+": the value added to the table entry is not directly a sentinel call")
				continue
			}
			args := call.Common().Args
			callee := call.Common().StaticCallee()
			var eg *ssa.Global
			var eidx ssa.Value
			argIdx := -1
			for ai, arg := range args {
				if gg, ix, ok := a.tableGlobal(arg); ok {
					eg, eidx, argIdx = gg, ix, ai
				}
			}
			if eg == nil || callee == nil {
				c.Undecided("S.wrap", anchor, claim, pos+": the bit count passed to the sentinel call is not an entry of a package-level extra-bits table")
				continue
			}
			if !c16SameValue(ta.idx, eidx, 0) {
				c.Fail("S.wrap", anchor, claim, 1, fmt.Sprintf("%s: %s and %s are indexed by different expressions (%s vs %s)", pos, ta.table.Name(), eg.Name(), ta.idx, eidx))
				continue
			}
			bt, et := tables[ta.table.Name()], tables[eg.Name()]
			if !bt.ok || !et.ok {
				c.Undecided("S.wrap", anchor, claim, fmt.Sprintf("%s: tables %s / %s could not be evaluated", pos, ta.table.Name(), eg.Name()))
				continue
			}
			var bad []string
			if len(bt.vals) != len(et.vals) {
				bad = append(bad, fmt.Sprintf("len(%s)=%d but len(%s)=%d", ta.table.Name(), len(bt.vals), eg.Name(), len(et.vals)))
			}
			for kx := 0; kx < len(bt.vals) && kx < len(et.vals); kx++ {
				b := bt.vals[kx]
				switch {
				case b == sentinel:
					if et.vals[kx] != 0 {
						bad = append(bad, fmt.Sprintf("%s[%d] is the sentinel but %s[%d] = %d: take(%d) can itself return the sentinel and sentinel+sentinel wraps to 0", ta.table.Name(), kx, eg.Name(), kx, et.vals[kx], et.vals[kx]))
					}
				case b < 0 || b > 1<<30:
					bad = append(bad, fmt.Sprintf("%s[%d] = %d is neither the sentinel nor in [0, 2^30]", ta.table.Name(), kx, b))
				}
				if et.vals[kx] < 0 || et.vals[kx] > 30 {
					bad = append(bad, fmt.Sprintf("%s[%d] = %d is not a bit count in [0, 30]", eg.Name(), kx, et.vals[kx]))
				}
			}
			// the receiver is args[0] for methods: parameter index = argIdx.
			if ok, why := a.cannotReturnSentinelWhenZero(callee, argIdx); !ok {
				bad = append(bad, fmt.Sprintf("%s may return the sentinel for a zero bit count: %s", callee.Name(), why))
			}
			c.Check(len(bad) == 0, "S.wrap", anchor, claim, len(bt.vals), pos+": "+strings.Join(bad, "; "))
		}
	}
	c.Analysed("sentinel_call_sites", nSites)
	c.Analysed("sentinel_sign_tests", nTests)
	c.Analysed("sentinel_uses", nUses)
	c.Floor("S.sites", "call sites of bitstream.take / huffman.decode / huffman.slowDecode in lib/flatecut", nSites, 16)
	c.Floor("S.tests", "sign tests on sentinel results", nTests, 13)
	c.Floor("S.uses", "uses of sentinel results checked for dominance", nUses, 30)
}

// c16NonNilError: v is certainly a non-nil error: a load of a package-level
// variable (the repository's errXxx values), errors.New / fmt.Errorf, or a
// concrete value converted to error.
func c16NonNilError(v ssa.Value) bool {
	switch x := v.(type) {
	case *ssa.UnOp:
		if x.Op == token.MUL {
			_, ok := x.X.(*ssa.Global)
			return ok
		}
	case *ssa.MakeInterface:
		return true
	case *ssa.Call:
		if f := x.Common().StaticCallee(); f != nil && f.Pkg != nil {
			switch f.Pkg.Pkg.Path() + "." + f.Name() {
			case "errors.New", "fmt.Errorf":
				return true
			}
		}
	}
	return false
}
