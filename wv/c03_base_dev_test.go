package main

// Development driver for C03's rule family B: evaluates the contract rows on the
// base headers of C03DEV_REPO (default /repo) without the scratch build, and — with
// C03DEV_RECIPES=<path of selftest/mutants/c03.json> — applies every recipe that
// edits only internal/cgen/base/*.h in memory and reports whether the expected rule
// fires (mutant) or nothing fires (benign). Nothing of /repo is compiled or run.
//
//   C03DEV=1 go test -run TestC03BaseDev -v .

import (
	"encoding/json"
	"fmt"
	"os"
	"strings"
	"testing"

	"wv/core"
)

func TestC03BaseDev(t *testing.T) {
	if os.Getenv("C03DEV") == "" {
		t.Skip("C03DEV not set")
	}
	repo := os.Getenv("C03DEV_REPO")
	if repo == "" {
		repo = "/repo"
	}
	tmp := t.TempDir()
	os.Setenv("WV_VERIF", tmp)
	run := func(read func(string) ([]byte, error)) []string {
		c := core.NewCtx("C03", "quick")
		runC03BaseSource(c, repo, read)
		old := os.Stdout
		r, w, _ := os.Pipe()
		os.Stdout = w
		c.Finish(core.Spec{})
		w.Close()
		os.Stdout = old
		var sb strings.Builder
		buf := make([]byte, 1<<16)
		for {
			n, err := r.Read(buf)
			sb.Write(buf[:n])
			if err != nil {
				break
			}
		}
		var out []string
		lines := strings.Split(sb.String(), "\n")
		for i, ln := range lines {
			if strings.HasPrefix(ln, "FAIL[") {
				d := ""
				if i+2 < len(lines) {
					d = strings.TrimSpace(lines[i+2])
				}
				out = append(out, ln+" :: "+d)
			}
			if strings.HasPrefix(ln, "SUMMARY") {
				t.Log(ln)
				if os.Getenv("C03DEV_VERBOSE") != "" {
					if b, err := os.ReadFile(tmp + "/evidence/C03.json"); err == nil {
						var ev struct {
							Coverage struct {
								All []string `json:"all_obligations"`
							} `json:"coverage"`
						}
						json.Unmarshal(b, &ev)
						for _, o := range ev.Coverage.All {
							t.Log(o)
						}
					}
				}
			}
		}
		return out
	}
	for _, f := range run(os.ReadFile) {
		t.Errorf("unchanged tree: %s", f)
	}
	path := os.Getenv("C03DEV_RECIPES")
	if path == "" {
		return
	}
	raw, err := os.ReadFile(path)
	if err != nil {
		t.Fatal(err)
	}
	var recipes []struct {
		ID, Kind, Expect string
		ExpectRule       string `json:"expect_rule"`
		Edits            []struct {
			File, Old, New string
			Count          *int
		}
	}
	if err := json.Unmarshal(raw, &recipes); err != nil {
		t.Fatal(err)
	}
	only := os.Getenv("C03DEV_ONLY")
	for _, r := range recipes {
		baseOnly := len(r.Edits) > 0
		for _, e := range r.Edits {
			if !strings.HasPrefix(e.File, "internal/cgen/base/") {
				baseOnly = false
			}
		}
		if !baseOnly || (only != "" && !strings.Contains(r.ID, only)) {
			continue
		}
		stale := ""
		read := func(p string) ([]byte, error) {
			b, err := os.ReadFile(p)
			if err != nil {
				return nil, err
			}
			s := string(b)
			for _, e := range r.Edits {
				if strings.HasSuffix(p, "/"+e.File) {
					want := 1
					if e.Count != nil {
						want = *e.Count
					}
					if n := strings.Count(s, e.Old); n != want {
						stale = fmt.Sprintf("%q occurs %d times in %s (want %d)", e.Old, n, e.File, want)
					}
					s = strings.ReplaceAll(s, e.Old, e.New)
				}
			}
			return []byte(s), nil
		}
		fails := run(read)
		status := "?"
		switch {
		case stale != "":
			status = "STALE " + stale
		case r.Kind == "benign" && len(fails) == 0:
			status = "OK-silent"
		case r.Kind == "benign":
			status = "FALSE-ALARM"
		default:
			status = "MISSED"
			for _, f := range fails {
				if strings.Contains(f, "rule="+r.ExpectRule+" ") {
					status = "OK-caught"
				}
			}
			if status == "MISSED" && len(fails) > 0 {
				status = "CAUGHT-OTHER"
			}
		}
		if !strings.HasPrefix(status, "OK") {
			t.Errorf("%-12s %s", status, r.ID)
		}
		t.Logf("%-12s %-60s %s", status, r.ID, strings.Join(fails, " | "))
	}
}
