package main

// C09, rule V.simdtwin: in the hand-written base library a CPU-specific variant
// `<name>_<arch>` (x86_avx2, x86_sse42, arm_neon, …) that hands part of its work
// to portable code hands it to ITS OWN portable twin `<name>` — not to another
// member of the same function family. The variants are selected at run time by
// the CPU's features and must produce what the portable function produces
// (repaired defect: `…swizzle_ycc__convert_3_rgbx_x86_avx2` called the portable
// `…convert_3_bgrx` for row segments shorter than 32 pixels, so narrow JPEGs
// decoded to an RGB-ordered format came out with red and blue swapped on AVX2
// machines only).
// Decided on the token streams of internal/cgen/base/*.c: for every function whose
// name ends in an architecture suffix and whose portable twin exists, each call to
// a portable function that shares the twin's family prefix (everything up to the
// last `__`-separated flavour word) must be a call to the twin itself.

import (
	"fmt"
	"os"
	"path/filepath"
	"sort"
	"strings"

	"wv/core"
)

var c09ArchSuffixes = []string{"_x86_avx2", "_x86_sse42", "_x86_bmi2", "_arm_neon", "_arm_crc32"}

func runC09Twin(c *core.Ctx) {
	dir := filepath.Join(c.Repo, "internal", "cgen", "base")
	files, _ := filepath.Glob(filepath.Join(dir, "*.c"))
	hs, _ := filepath.Glob(filepath.Join(dir, "*.h"))
	files = append(files, hs...)
	sort.Strings(files)
	type fnInfo struct {
		file string
		fn   *core.CFunc
	}
	all := map[string]fnInfo{}
	for _, f := range files {
		src, err := os.ReadFile(f)
		if err != nil {
			c.Undecided("V.simdtwin", f, "base file readable", err.Error())
			return
		}
		cf := core.CParseFile(f, string(src))
		for _, fn := range cf.Funcs {
			all[fn.Name] = fnInfo{filepath.Base(f), fn}
		}
	}
	family := func(name string) string {
		// strip the last word after the last "__" separator's final "_<flavour>": keep up to the last "_"
		if i := strings.LastIndex(name, "_"); i > 0 {
			return name[:i+1]
		}
		return name
	}
	nVariants, nCalls := 0, 0
	var names []string
	for n := range all {
		names = append(names, n)
	}
	sort.Strings(names)
	for _, name := range names {
		base := ""
		for _, suf := range c09ArchSuffixes {
			if strings.HasSuffix(name, suf) {
				base = strings.TrimSuffix(name, suf)
			}
		}
		if base == "" {
			continue
		}
		if _, ok := all[base]; !ok {
			continue // no portable twin of the same name (the variant is selected some other way)
		}
		nVariants++
		fam := family(base)
		var bad []string
		calls := 0
		toks := all[name].fn.Body
		for i := 0; i+1 < len(toks); i++ {
			t := toks[i].Text
			if toks[i+1].Text != "(" || !strings.HasPrefix(t, fam) || t == name {
				continue
			}
			if _, isFn := all[t]; !isFn {
				continue
			}
			// a call to a member of the family
			isVariant := false
			for _, suf := range c09ArchSuffixes {
				if strings.HasSuffix(t, suf) {
					isVariant = true
				}
			}
			if isVariant {
				continue
			}
			calls++
			if t != base {
				bad = append(bad, fmt.Sprintf("%s line %d: calls the portable `%s`, a different member of the family, instead of its own twin `%s`", all[name].file, toks[i].Line, t, base))
			}
		}
		nCalls += calls
		c.Check(len(bad) == 0, "V.simdtwin", "internal/cgen/base "+name,
			"a CPU-specific variant falls back only to its own portable twin, so that what a build computes does not depend on which CPU path was taken",
			calls+1, strings.Join(bad, "\n"))
	}
	c.Floor("V.simdtwin", "CPU-specific base functions with a portable twin of the same name", nVariants, 2)
	c.Floor("V.simdtwin.calls", "fall-back calls from a variant into its portable family", nCalls, 2)
}
