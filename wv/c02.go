package main

import (
	"fmt"
	"go/ast"
	"go/token"
	"go/types"

	"wv/core"
)

func init() {
	register("C02", core.Spec{
		Decides:    "(1) every axiom of lang/check's reasons[] table, as implemented by the generated closures (Go rebinding semantics included), is the rule its name states and is a theorem of the integers — decided per axiom by Fourier–Motzkin refutation of premises ∧ ¬claim; axioms.md and the table are the same sequence; (2) the fact-invalidation discipline of the bounds checker holds on every control-flow path of the anchored functions: assignment drops facts mentioning the assignee before adding new ones, compound assignment rewrites or drops, impure calls drop facts about the receiver and by-reference arguments, coroutine calls and yields apply updateFactsForSuspension, io_bind/io_limit drop facts about the I/O token on entry and exit, iterate/jump/while reset the fact set where they must and re-prove invariants at every back edge and jump, if/else arms start from the same snapshot and are reconciled by intersection, and updateFactsForSuspension drops every fact mentioning args, this or a pointer-typed value; (3) the operator tables (invert, otherHandSide, opImpliesOp, proveBinaryOpConstValues, facts.refine, the x-y sign table) are correct for all values, decided exactly by exhaustive evaluation over the finite set of orderings of the symbols they compare",
		NotDecided: "that the *set* of invalidations is sufficient for every aliasing pattern (stores through a slice aliasing another, facts about x.length() after passing x), simplify(), optimizeIOMethodAdvance's arithmetic, and that proveBinaryOp's search is complete. These rules are necessary conditions: removing any one makes some accepted program carry a false fact",
		Assumptions: []string{"go/types, go/cfg (x/tools v0.29.0)", "the generated closures follow the generator's statement forms; any other form fails as undecided",
			"the operator tables touch values only through comparisons and ±1, so enumerating small integers covers every ordering"},
	}, runC02)
}

func runC02(c *core.Ctx) {
	k := newG(c, "./lang/check")
	runC02Axioms(k)
	runC02Facts(k)
	runC02Simplify(k)
	runC02Tables(k)
	runC01More(k) // bcheckAssert's acceptance gate and optimizeIOMethodAdvance are C02 mechanisms too
}

// ---- recognisers ----

// isFactsField: e is <x>.facts (a field named facts of the checker).
func isFactsField(fl *core.Flow, e ast.Expr) bool {
	sel, ok := ast.Unparen(e).(*ast.SelectorExpr)
	if !ok {
		return false
	}
	v, ok := fl.F.Info().Uses[sel.Sel].(*types.Var)
	return ok && v.IsField() && v.Name() == "facts"
}

// isFactsReset: `q.facts = q.facts[:0]`
func isFactsReset(fl *core.Flow, n ast.Node) bool {
	as, ok := n.(*ast.AssignStmt)
	if !ok || as.Tok != token.ASSIGN || len(as.Lhs) != 1 || len(as.Rhs) != 1 || !isFactsField(fl, as.Lhs[0]) {
		return false
	}
	se, ok := ast.Unparen(as.Rhs[0]).(*ast.SliceExpr)
	if !ok || se.Low != nil || se.High == nil || !isFactsField(fl, se.X) {
		return false
	}
	v, ok := core.ConstInt64(fl.F.Info(), se.High)
	return ok && v == 0
}

// isFactsRestore: `q.facts = append(q.facts[:0], snap...)`
func isFactsRestore(fl *core.Flow, n ast.Node, snap core.ExprPred) bool {
	as, ok := n.(*ast.AssignStmt)
	if !ok || as.Tok != token.ASSIGN || len(as.Lhs) != 1 || len(as.Rhs) != 1 || !isFactsField(fl, as.Lhs[0]) {
		return false
	}
	call, ok := ast.Unparen(as.Rhs[0]).(*ast.CallExpr)
	if !ok || len(call.Args) != 2 || !call.Ellipsis.IsValid() {
		return false
	}
	if id, ok := call.Fun.(*ast.Ident); !ok || id.Name != "append" {
		return false
	}
	se, ok := ast.Unparen(call.Args[0]).(*ast.SliceExpr)
	if !ok || se.High == nil || !isFactsField(fl, se.X) {
		return false
	}
	if v, ok := core.ConstInt64(fl.F.Info(), se.High); !ok || v != 0 {
		return false
	}
	return snap(call.Args[1])
}

// factsMethod: call is <…>.facts.<name>(args…) with the facts receiver.
func factsMethod(fl *core.Flow, name string, args ...core.ExprPred) func(*ast.CallExpr) bool {
	return func(call *ast.CallExpr) bool {
		fn := core.Callee(fl.F.Info(), call)
		if fn == nil || fn.Name() != name {
			return false
		}
		r := core.RecvOf(call)
		if r == nil || !isFactsField(fl, r) {
			return false
		}
		for i, p := range args {
			if p == nil {
				continue
			}
			if i >= len(call.Args) || !p(call.Args[i]) {
				return false
			}
		}
		return true
	}
}

func nameIs(fl *core.Flow, call *ast.CallExpr, name string) bool {
	fn := core.Callee(fl.F.Info(), call)
	return fn != nil && fn.Name() == name
}

// firstResultNil: return statement whose first result is the nil literal.
func firstResultNil(fl *core.Flow, n ast.Node) (isReturn, isNil bool) {
	r, ok := n.(*ast.ReturnStmt)
	if !ok || len(r.Results) == 0 {
		return ok, false
	}
	return true, core.IsNilIdent(fl.F.Info(), r.Results[0])
}

func findLits(root ast.Node) []*ast.FuncLit {
	var out []*ast.FuncLit
	ast.Inspect(root, func(n ast.Node) bool {
		if fl, ok := n.(*ast.FuncLit); ok {
			out = append(out, fl)
			return false
		}
		return true
	})
	return out
}

func runC02Facts(k *gctx) {
	c := k.c
	tok := func(name string) types.Object { return k.obj("anchors", "lang/token", name) }
	astObj := func(name string) types.Object { return k.obj("anchors", "lang/ast", name) }
	updSusp := k.obj("anchors", relCheck, "updateFactsForSuspension")
	bcheckAssignment1 := k.fn("anchors", relCheck, "checker", "bcheckAssignment1")
	bcheckBlock := k.fn("anchors", relCheck, "checker", "bcheckBlock")
	bcheckAssert := k.fn("anchors", relCheck, "checker", "bcheckAssert")
	bcheckStatement := k.fn("anchors", relCheck, "checker", "bcheckStatement")

	// ================= bcheckAssignment =================
	if fl := k.flow("F", relCheck, "checker", "bcheckAssignment"); fl != nil {
		lhs, op, rhs := fl.Param(0), fl.Param(1), fl.Param(2)
		name := fl.F.Name()
		addsFact := func(n ast.Node) bool {
			if core.Guaranteed(n, func(call *ast.CallExpr) bool {
				return factsMethod(fl, "appendBinaryOpFact")(call) || factsMethod(fl, "appendFact")(call)
			}) {
				return true
			}
			if as, ok := n.(*ast.AssignStmt); ok && len(as.Lhs) == 1 && isFactsField(fl, as.Lhs[0]) && !isFactsReset(fl, n) {
				return true
			}
			return false
		}
		// F-a: op == IDEq: drop before add.
		var eqIf *ast.IfStmt
		ast.Inspect(fl.F.Decl.Body, func(m ast.Node) bool {
			if is, ok := m.(*ast.IfStmt); ok && eqIf == nil && eqTest(fl, is.Cond, fl.Is(op), fl.Is(tok("IDEq")), true) {
				eqIf = is
			}
			return true
		})
		if eqIf == nil {
			c.Undecided("F-a", name+"[op == IDEq]", "the plain-assignment branch exists", "no `if op == t.IDEq`")
		} else {
			k.passChecked("F-a.drop", name+"[op == IDEq]", "a plain assignment x = e drops every fact mentioning x before any new fact about x is added (and before leaving the branch)", fl,
				core.Query{Region: core.RegionOf(eqIf.Body), FallOut: true, Exit: func(n ast.Node) bool { return addsFact(n) || fl.SuccessReturn(n) }},
				factsMethod(fl, "dropAnyFactsMentioning", fl.Is(lhs)))
			// F-b: compound assignment: on every path of the else part, either
			// facts.update(closure) or facts.dropAnyFactsMentioning(lhs).
			if eqIf.Else == nil {
				c.Undecided("F-b", name+"[compound op]", "the compound-assignment branch exists", "no else branch")
			} else {
				els := eqIf.Else
				var lit *ast.FuncLit
				isUpd := func(call *ast.CallExpr) bool {
					if !factsMethod(fl, "update")(call) || len(call.Args) != 1 {
						return false
					}
					l, ok := call.Args[0].(*ast.FuncLit)
					if ok {
						lit = l
					}
					return ok
				}
				isDrop := factsMethod(fl, "dropAnyFactsMentioning", fl.Is(lhs))
				k.passChecked("F-b.update", name+"[compound op]", "a compound assignment x op= e rewrites or drops every fact mentioning x (facts.update, or dropAnyFactsMentioning(x))", fl,
					core.Query{Region: core.RegionOf(els), FallOut: true, Exit: fl.SuccessReturn},
					func(call *ast.CallExpr) bool { return isUpd(call) || isDrop(call) })
				// rhsMentionsLHS: cond is rhs.Mentions(lhs), possibly negated.
				rhsMentionsLHS := func(cond ast.Expr) (bool, bool) {
					e, neg := boolCond(cond)
					call, ok := e.(*ast.CallExpr)
					if !ok || !nameIs(fl, call, "Mentions") || len(call.Args) != 1 || !fl.Is(lhs)(call.Args[0]) {
						return false, false
					}
					r := core.RecvOf(call)
					return r != nil && fl.Is(rhs)(r), neg
				}
				selfEdge := core.Event{Edge: func(cond ast.Expr, ci *core.CondInfo, taken bool) bool {
					m, neg := rhsMentionsLHS(cond)
					return m && taken == neg // continue only when rhs.Mentions(lhs) is false
				}}
				// F-b.self: the rewriting closure is reached only when rhs does not
				// mention lhs (x -= x would mix the old and the new x in one fact).
				k.mustPass("F-b.self", name+"[compound op]", "facts are rewritten in terms of the right-hand side of x op= e only when e does not mention x (otherwise the rewritten fact mixes the old and the new x)", fl,
					core.Query{Region: core.RegionOf(els), Exit: func(n ast.Node) bool { return core.Guaranteed(n, isUpd) }, Events: []core.Event{selfEdge}})
				// F-a.self: in the plain-assignment branch a fact built from rhs
				// itself is minted only when rhs does not mention lhs.
				k.mustPass("F-a.self", name+"[op == IDEq]", "after x = e a fact relating x to e itself is remembered only when e does not mention x (x == x + 1 is false for every x)", fl,
					core.Query{Region: core.RegionOf(eqIf.Body), Exit: func(n ast.Node) bool {
						return core.Guaranteed(n, func(call *ast.CallExpr) bool {
							if !(factsMethod(fl, "appendBinaryOpFact")(call) || factsMethod(fl, "appendFact")(call)) {
								return false
							}
							for _, a := range call.Args {
								if core.Mentions(fl.F.Info(), a, rhs) {
									return true
								}
							}
							return false
						})
					}, Events: []core.Event{selfEdge}})
				if lit != nil {
					ll := core.NewFlowLit(fl.F, lit)
					x := ll.Param(0)
					mentionsLHS := func(recv core.ExprPred) func(cond ast.Expr) (ast.Expr, bool) {
						return nil
					}
					_ = mentionsLHS
					isMentions := func(cond ast.Expr, recv core.ExprPred) (bool, bool) {
						e, neg := boolCond(cond)
						call, ok := e.(*ast.CallExpr)
						if !ok || !nameIs(ll, call, "Mentions") || len(call.Args) != 1 || !fl.Is(lhs)(call.Args[0]) {
							return false, false
						}
						r := core.RecvOf(call)
						return r != nil && recv(r), neg
					}
					xRHS := ll.VarsDenoting(func(e ast.Expr) bool {
						call, ok := ast.Unparen(e).(*ast.CallExpr)
						return ok && nameIs(ll, call, "parseBinaryOp")
					})
					// kept unchanged (`return x, nil`): only when x does not mention lhs
					k.mustPass("F-b.keep", name+"[compound op closure]", "a fact is kept unchanged across x op= e only if it does not mention x", ll, core.Query{
						Exit: func(n ast.Node) bool {
							r, ok := n.(*ast.ReturnStmt)
							return ok && len(r.Results) == 2 && ll.Is(x)(r.Results[0])
						},
						Events: []core.Event{{Edge: func(cond ast.Expr, ci *core.CondInfo, taken bool) bool {
							m, neg := isMentions(cond, ll.Is(x))
							return m && taken == neg // continue only when Mentions(lhs) is false
						}}}})
					// rewritten (`return o, nil`): only for += / -=, only when the fact's other side does not mention lhs
					k.mustPass("F-b.rewrite", name+"[compound op closure]", "a fact `x op e'` is rewritten only for += and -= and only when e' does not mention x; every other compound operator drops it", ll, core.Query{
						Exit: func(n ast.Node) bool {
							r, ok := n.(*ast.ReturnStmt)
							if !ok || len(r.Results) != 2 {
								return false
							}
							return !core.IsNilIdent(ll.F.Info(), r.Results[0]) && !ll.Is(x)(r.Results[0])
						},
						Events: []core.Event{{Edge: func(cond ast.Expr, ci *core.CondInfo, taken bool) bool {
							// the switch case for IDPlusEq / IDMinusEq
							if ci == nil || ci.Kind != "tagswitch" || !taken || !fl.Is(op)(ci.Tag) {
								return false
							}
							return fl.Is(tok("IDPlusEq"))(cond) || fl.Is(tok("IDMinusEq"))(cond)
						}}}})
					k.mustPass("F-b.rhs", name+"[compound op closure]", "a rewritten fact's other side does not mention x", ll, core.Query{
						Exit: func(n ast.Node) bool {
							r, ok := n.(*ast.ReturnStmt)
							if !ok || len(r.Results) != 2 {
								return false
							}
							return !core.IsNilIdent(ll.F.Info(), r.Results[0]) && !ll.Is(x)(r.Results[0])
						},
						Events: []core.Event{{Edge: func(cond ast.Expr, ci *core.CondInfo, taken bool) bool {
							m, neg := isMentions(cond, anyOf(ll, xRHS))
							return m && taken == neg
						}}}})
				}
			}
		}
		// F-c: impure call.
		isImpureCond := func(cond ast.Expr) bool {
			parts := flattenAnd(cond)
			if len(parts) != 2 {
				return false
			}
			okCall := eqTest(fl, parts[0], func(e ast.Expr) bool { return callNamedOn(fl, e, "Operator", fl.Is(rhs)) }, fl.Is(astObj("ExprOperatorCall")), true)
			okImp := callNamedOn(fl, parts[1], "Impure", func(r ast.Expr) bool { return callNamedOn(fl, r, "Effect", fl.Is(rhs)) })
			return okCall && okImp
		}
		var impLit *ast.FuncLit
		isImpUpd := func(call *ast.CallExpr) bool {
			if !factsMethod(fl, "update")(call) || len(call.Args) != 1 {
				return false
			}
			l, ok := call.Args[0].(*ast.FuncLit)
			if !ok {
				return false
			}
			// the closure that looks at the receiver of the call
			mentionsRecv := false
			ast.Inspect(l, func(m ast.Node) bool {
				if id, ok := m.(*ast.Ident); ok && id.Name == "recv" {
					mentionsRecv = true
				}
				return true
			})
			uses := core.AnyCall(l.Body, func(cc *ast.CallExpr) bool { return nameIs(fl, cc, "Mentions") })
			if uses && mentionsRecv {
				impLit = l
				return true
			}
			return false
		}
		k.passChecked("F-c.update", name+"[impure call]", "after an impure call the facts are filtered (facts.update) — on every accepting path where the right-hand side is an impure call", fl,
			core.Query{Start: func(n ast.Node) bool { return core.Guaranteed(n, fl.Call(bcheckAssignment1)) }, Exit: fl.SuccessReturn, FuncEnd: true,
				Exempt: func(cond ast.Expr, ci *core.CondInfo, taken bool) bool { return !taken && isImpureCond(cond) }},
			isImpUpd)
		if impLit != nil {
			ll := core.NewFlowLit(fl.F, impLit)
			x := ll.Param(0)
			recvVars := fl.VarsDenoting(fl.MethodChain(fl.MethodChain(fl.Is(rhs), "LHS", "AsExpr"), "LHS", "AsExpr"))
			keep := func(n ast.Node) bool {
				r, ok := n.(*ast.ReturnStmt)
				return ok && len(r.Results) == 2 && ll.Is(x)(r.Results[0])
			}
			newFactEdge := func(cond ast.Expr, ci *core.CondInfo, taken bool) bool {
				// `_, ok := oldFacts[x]; !ok` ⇒ newly minted fact: kept
				e, neg := boolCond(cond)
				id, ok := e.(*ast.Ident)
				if !ok {
					return false
				}
				o := ll.Obj(id)
				if o == nil || o.Type().String() != "bool" {
					return false
				}
				for _, d := range ll.Defs()[o] {
					if ix, ok := ast.Unparen(d).(*ast.IndexExpr); ok && ll.Is(x)(ix.Index) {
						return taken == neg // !ok taken ⇒ ok false ⇒ new fact
					}
				}
				return false
			}
			k.mustPass("F-c.recv", name+"[impure call closure]", "a fact that existed before an impure call is kept only if it does not mention the call's receiver", ll, core.Query{
				Exit: keep, Exempt: newFactEdge,
				Events: []core.Event{{Edge: func(cond ast.Expr, ci *core.CondInfo, taken bool) bool {
					e, neg := boolCond(cond)
					call, ok := e.(*ast.CallExpr)
					if !ok || !nameIs(ll, call, "Mentions") || len(call.Args) != 1 || !ll.Is(x)(core.RecvOf(call)) {
						return false
					}
					return anyOf(fl, recvVars)(call.Args[0]) && taken == neg
				}}}})
			// the loop over by-reference arguments
			var loop *ast.RangeStmt
			ast.Inspect(impLit.Body, func(m ast.Node) bool {
				if rs, ok := m.(*ast.RangeStmt); ok && loop == nil && fl.MethodChain(fl.Is(rhs), "Args")(rs.X) {
					loop = rs
				}
				return true
			})
			if loop == nil {
				c.Undecided("F-c.args", name+"[impure call closure]", "loop over the call's arguments", "no range over rhs.Args()")
			} else {
				argV := ll.VarsDenoting(ll.MethodChain(ll.Is(ll.Obj(loop.Value)), "AsArg", "Value"))
				k.mustPass("F-c.args", name+"[impure call closure][range rhs.Args()]", "for every argument that is not a bool / nullptr / number / status (i.e. passed by reference) facts mentioning it are dropped", ll, core.Query{
					Region: core.RegionOf(loop.Body), FallOut: true,
					Events: []core.Event{{Edge: func(cond ast.Expr, ci *core.CondInfo, taken bool) bool {
						e, neg := boolCond(cond)
						call, ok := e.(*ast.CallExpr)
						if !ok || !nameIs(ll, call, "Mentions") || len(call.Args) != 1 || !ll.Is(x)(core.RecvOf(call)) {
							return false
						}
						return anyOf(ll, argV)(call.Args[0]) && taken == neg
					}}},
					Exempt: func(cond ast.Expr, ci *core.CondInfo, taken bool) bool {
						// `typ.IsBool() || typ.IsNullptr() || typ.IsNumTypeOrIdeal() || typ.IsStatus()` ⇒ by value
						if !taken {
							return false
						}
						allowed := map[string]bool{"IsBool": true, "IsNullptr": true, "IsNumTypeOrIdeal": true, "IsNumType": true, "IsStatus": true, "IsIdeal": true}
						for _, p := range flattenOr(cond) {
							call, ok := ast.Unparen(p).(*ast.CallExpr)
							if !ok {
								return false
							}
							fn := core.Callee(ll.F.Info(), call)
							if fn == nil || !allowed[fn.Name()] {
								return false
							}
						}
						return true
					}})
				k.mustPass("F-c.loop", name+"[impure call closure]", "the argument loop is on every path that keeps an old fact", ll, core.Query{
					Exit: keep, Exempt: newFactEdge,
					Events: []core.Event{{Node: func(n ast.Node) bool { return n.Pos() >= loop.Pos() && n.End() <= loop.End() }}}})
			}
		}
		// F-d: coroutine call: suspension update before bcheckAssignment1.
		allowedConj := func(e ast.Expr) bool {
			return eqTest(fl, e, func(x ast.Expr) bool { return callNamedOn(fl, x, "Operator", fl.Is(rhs)) }, fl.Is(astObj("ExprOperatorCall")), true) ||
				callNamedOn(fl, e, "Coroutine", func(r ast.Expr) bool { return callNamedOn(fl, r, "Effect", fl.Is(rhs)) }) ||
				eqTest(fl, e, fl.Is(op), fl.Is(tok("IDEqQuestion")), false)
		}
		k.passChecked("F-d.suspend", name+"[coroutine call]", "before the right-hand side of a suspending call (a `?` call other than `=?`) is checked, facts are passed through updateFactsForSuspension; the only bypass is a guard whose conjuncts are among {rhs is a call, rhs is a coroutine call, op is not =?}", fl,
			core.Query{Exit: func(n ast.Node) bool { return core.Guaranteed(n, fl.Call(bcheckAssignment1)) },
				Exempt: func(cond ast.Expr, ci *core.CondInfo, taken bool) bool {
					if taken {
						return false
					}
					parts := flattenAnd(cond)
					sawCoro := false
					for _, p := range parts {
						if !allowedConj(p) {
							return false
						}
						if callNamedOn(fl, p, "Coroutine", nil) {
							sawCoro = true
						}
					}
					return sawCoro
				}},
			factsMethod(fl, "update", fl.Is(updSusp)))
		// the assignment is bounds-checked on every accepting path
		k.passChecked("F.assign1", name, "every assignment passes through bcheckAssignment1", fl, core.Query{Exit: fl.SuccessReturn, FuncEnd: true}, fl.Call(bcheckAssignment1))
	}

	// ================= bcheckBlock =================
	if fl := k.flow("F-e", relCheck, "checker", "bcheckBlock"); fl != nil {
		name := fl.F.Name()
		var loop *ast.RangeStmt
		ast.Inspect(fl.F.Decl.Body, func(m ast.Node) bool {
			if rs, ok := m.(*ast.RangeStmt); ok && loop == nil && fl.Is(fl.Param(0))(rs.X) {
				loop = rs
			}
			return true
		})
		if loop == nil {
			c.Undecided("F-e", name, "loop over the block's statements", "not found")
		} else {
			k.passChecked("F.block.stmt", name+"[range block]", "every statement of a block is bounds-checked (bcheckStatement)", fl,
				core.Query{Region: core.RegionOf(loop.Body), FallOut: true}, fl.Call(bcheckStatement, fl.Is(fl.Obj(loop.Value))))
			yieldEdge := func(cond ast.Expr, ci *core.CondInfo, taken bool) bool {
				return taken && eqTest(fl, cond, func(e ast.Expr) bool { return callNamedOn(fl, e, "Keyword", nil) }, fl.Is(tok("IDYield")), true)
			}
			if region, cc := fl.CaseRegion(astObj("KRet"), nil); cc != nil {
				k.passChecked("F-e.yield", name+"[after yield]", "after a yield statement the facts are passed through updateFactsForSuspension before the next statement is checked", fl,
					core.Query{Region: region,
						Exit: func(n ast.Node) bool {
							b := fl.Branch(n)
							return b != nil && b.Tok == token.CONTINUE
						}},
					factsMethod(fl, "update", fl.Is(updSusp)))
			}
			_ = yieldEdge
			// the only way past a KRet without becoming unreachable is the yield branch
			kret := astObj("KRet")
			if region, cc := fl.CaseRegion(kret, nil); cc == nil {
				c.Undecided("F-e.kret", name+"[case KRet]", "case a.KRet exists", "not found")
			} else {
				k.mustPass("F-e.kret", name+"[case KRet]", "a return/yield statement leads to the next statement only through the yield branch", fl, core.Query{
					Region: region, Exit: func(n ast.Node) bool { b := fl.Branch(n); return b != nil && b.Tok == token.CONTINUE },
					Events: []core.Event{{Edge: yieldEdge}}})
			}
		}
	}

	// ================= bcheckStatement =================
	if fl := k.flow("F", relCheck, "checker", "bcheckStatement"); fl != nil {
		name := fl.F.Name()
		kindTag := func(e ast.Expr) bool { return callNamedOn(fl, e, "Kind", nil) }
		// F-f: io manip
		if region, cc := fl.CaseRegion(astObj("KIOManip"), kindTag); cc == nil {
			c.Undecided("F-f", name+"[case KIOManip]", "case exists", "not found")
		} else {
			ioArg := func(e ast.Expr) bool { return callNamedOn(fl, e, "IO", nil) }
			isBody := func(n ast.Node) bool {
				return core.Guaranteed(n, fl.Call(bcheckBlock, func(e ast.Expr) bool { return callNamedOn(fl, e, "Body", nil) }))
			}
			k.mustPass("F-f.before", name+"[case KIOManip]", "facts mentioning the I/O token are dropped before the io_bind/io_limit body is checked", fl, core.Query{
				Region: region, Exit: isBody, Events: []core.Event{core.CallEvent(factsMethod(fl, "dropAnyFactsMentioning", ioArg))}})
			k.mustPass("F-f.after", name+"[case KIOManip]", "facts mentioning the I/O token are dropped again after the body", fl, core.Query{
				Region: region, Start: isBody, FallOut: true, Exit: fl.SuccessReturn, Events: []core.Event{core.CallEvent(factsMethod(fl, "dropAnyFactsMentioning", ioArg))}})
			k.passChecked("F-f.body", name+"[case KIOManip]", "the body is checked", fl, core.Query{Region: region, FallOut: true, Exit: fl.SuccessReturn},
				fl.Call(bcheckBlock, func(e ast.Expr) bool { return callNamedOn(fl, e, "Body", nil) }))
		}
		// F-g: iterate
		if region, cc := fl.CaseRegion(astObj("KIterate"), kindTag); cc == nil {
			c.Undecided("F-g", name+"[case KIterate]", "case exists", "not found")
		} else {
			isBody := func(n ast.Node) bool {
				return core.Guaranteed(n, fl.Call(bcheckBlock, func(e ast.Expr) bool { return callNamedOn(fl, e, "Body", nil) }))
			}
			reset := core.Event{Node: func(n ast.Node) bool { return isFactsReset(fl, n) }}
			var loop *ast.ForStmt
			ast.Inspect(cc, func(m ast.Node) bool {
				if fs, ok := m.(*ast.ForStmt); ok && loop == nil && core.AnyCall(fs.Body, func(call *ast.CallExpr) bool { return fl.Call(bcheckBlock)(call) }) {
					loop = fs
				}
				return true
			})
			if loop == nil {
				c.Undecided("F-g", name+"[case KIterate]", "loop over iterate rounds", "not found")
			} else {
				k.mustPass("F-g.round", name+"[case KIterate][each round]", "each iterate round's body starts from an empty fact set (plus the slice-length facts)", fl, core.Query{
					Region: core.RegionOf(loop.Body), Exit: isBody, Events: []core.Event{reset}})
				k.mustPass("F-g.after", name+"[case KIterate]", "after an iterate loop the fact set is empty", fl, core.Query{
					Region: region, FallOut: true, Exit: fl.SuccessReturn,
					Events: []core.Event{{Node: func(n ast.Node) bool { return isFactsReset(fl, n) && !(n.Pos() >= loop.Pos() && n.End() <= loop.End()) }}}})
			}
		}
		// F-h: jump
		if region, cc := fl.CaseRegion(astObj("KJump"), kindTag); cc == nil {
			c.Undecided("F-h", name+"[case KJump]", "case exists", "not found")
		} else {
			reset := core.Event{Node: func(n ast.Node) bool { return isFactsReset(fl, n) }}
			k.mustPass("F-h.reset", name+"[case KJump]", "after a break/continue nothing is known (fact set emptied)", fl, core.Query{Region: region, FallOut: true, Exit: fl.SuccessReturn, Events: []core.Event{reset}})
			var loop *ast.RangeStmt
			ast.Inspect(cc, func(m ast.Node) bool {
				if rs, ok := m.(*ast.RangeStmt); ok && loop == nil && callNamedOn(fl, rs.X, "Asserts", func(r ast.Expr) bool { return callNamedOn(fl, r, "JumpTarget", nil) }) {
					loop = rs
				}
				return true
			})
			if loop == nil {
				c.Undecided("F-h.asserts", name+"[case KJump]", "loop over the jump target's asserts", "no range over n.JumpTarget().Asserts()")
			} else {
				skipVars := fl.VarsDenoting(func(e ast.Expr) bool { return fl.Is(tok("IDPost"))(e) || fl.Is(tok("IDPre"))(e) })
				var skipObj []types.Object
				for _, v := range skipVars {
					if region.Contains(v.Pos()) {
						skipObj = append(skipObj, v)
					}
				}
				skipP := anyOf(fl, skipObj)
				k.passChecked("F-h.asserts", name+"[case KJump][range asserts]", "at a break/continue every loop condition of the target except the skipped kind is proved (bcheckAssert)", fl,
					core.Query{Region: core.RegionOf(loop.Body), FallOut: true,
						Exempt: func(cond ast.Expr, ci *core.CondInfo, taken bool) bool {
							return taken && eqTest(fl, cond, func(e ast.Expr) bool { return callNamedOn(fl, e, "Keyword", nil) }, skipP, true)
						}},
					fl.Call(bcheckAssert))
				// skip is IDPost for continue, IDPre for break
				okSkip := len(skipObj) == 1
				if okSkip {
					defs := fl.Defs()[skipObj[0]]
					okSkip = len(defs) == 2 && fl.Is(tok("IDPost"))(defs[0]) && fl.Is(tok("IDPre"))(defs[1])
					// the second definition is under `Keyword() == IDBreak`
					var guard *ast.IfStmt
					ast.Inspect(cc, func(m ast.Node) bool {
						if is, ok := m.(*ast.IfStmt); ok && guard == nil && eqTest(fl, is.Cond, func(e ast.Expr) bool { return callNamedOn(fl, e, "Keyword", nil) }, fl.Is(tok("IDBreak")), true) {
							guard = is
						}
						return true
					})
					okSkip = okSkip && guard != nil && len(defs) == 2 && defs[1].Pos() >= guard.Body.Pos() && defs[1].End() <= guard.Body.End()
				}
				c.Check(okSkip, "F-h.skip", name+"[case KJump]", "the skipped loop-condition kind is `post` for continue and `pre` for break (so inv+pre are proved at a continue, inv+post at a break)", 2, "")
			}
		}
	}

	// ================= bcheckWhile =================
	if fl := k.flow("F-i", relCheck, "checker", "bcheckWhile"); fl != nil {
		name := fl.F.Name()
		n := fl.Param(0)
		isBody := func(x ast.Node) bool {
			return core.Guaranteed(x, fl.Call(bcheckBlock, fl.MethodChain(fl.Is(n), "Body")))
		}
		isAssert := func(x ast.Node) bool { return core.Guaranteed(x, fl.Call(bcheckAssert)) }
		reset := core.Event{Node: func(x ast.Node) bool { return isFactsReset(fl, x) }}
		kw := func(e ast.Expr) bool { return callNamedOn(fl, e, "Keyword", nil) }
		skipEdge := func(which string) func(ast.Expr, *core.CondInfo, bool) bool {
			return func(cond ast.Expr, ci *core.CondInfo, taken bool) bool {
				return taken && eqTest(fl, cond, kw, fl.Is(tok(which)), true)
			}
		}
		// collect the loops over n.Asserts()
		var loops []*ast.RangeStmt
		ast.Inspect(fl.F.Decl.Body, func(m ast.Node) bool {
			if rs, ok := m.(*ast.RangeStmt); ok && fl.MethodChain(fl.Is(n), "Asserts")(rs.X) {
				loops = append(loops, rs)
			}
			return true
		})
		c.Floor("F-i.loops", "loops over the while statement's asserts in bcheckWhile", len(loops), 6)
		var resets []ast.Node
		ast.Inspect(fl.F.Decl.Body, func(m ast.Node) bool {
			if isFactsReset(fl, m) {
				resets = append(resets, m)
			}
			return true
		})
		c.Floor("F-i.resets", "fact-set resets in bcheckWhile (before post check, before body, at exit)", len(resets), 3)
		if len(loops) >= 6 && len(resets) >= 3 {
			classify := func(rs *ast.RangeStmt) string {
				hasAssert := core.AnyCall(rs.Body, func(call *ast.CallExpr) bool { return fl.Call(bcheckAssert)(call) })
				hasAppend := core.AnyCall(rs.Body, func(call *ast.CallExpr) bool { return factsMethod(fl, "appendFact")(call) })
				switch {
				case hasAssert:
					return "prove"
				case hasAppend:
					return "assume"
				}
				return "?"
			}
			// (i) entry: first loop proves non-post
			entry := loops[0]
			okEntry := classify(entry) == "prove" && entry.End() < resets[0].Pos()
			if okEntry {
				k.passChecked("F-i.entry", name+"[on entry]", "pre and inv conditions are proved on loop entry (everything but post)", fl,
					core.Query{Region: core.RegionOf(entry.Body), FallOut: true, Exempt: skipEdge("IDPost")}, fl.Call(bcheckAssert))
				k.mustPass("F-i.entry.reach", name+"[on entry]", "the entry proofs precede everything else", fl, core.Query{
					Exit: func(x ast.Node) bool { return isFactsReset(fl, x) || isBody(x) || fl.SuccessReturn(x) }, FuncEnd: true,
					Events: []core.Event{{Node: func(x ast.Node) bool { return x.Pos() >= entry.Pos() && x.End() <= entry.End() }}}})
			} else {
				c.Undecided("F-i.entry", name+"[on entry]", "the first loop over the asserts proves them before any reset", "shape not recognised")
			}
			// (ii) post conditions: proved after a reset, from assumed non-post + inverted condition
			// identify the block: the else branch whose reset is resets[0]
			r0, r1, r2 := resets[0], resets[1], resets[len(resets)-1]
			var postProve *ast.RangeStmt
			for _, rs := range loops {
				if classify(rs) == "prove" && rs.Pos() > r0.Pos() && rs.End() < r1.Pos() {
					postProve = rs
				}
			}
			if postProve == nil {
				c.Undecided("F-i.post", name+"[post conditions]", "post conditions are proved between the first and the second reset", "not found")
			} else {
				k.mustPass("F-i.post.from", name+"[post conditions]", "post conditions are proved only from {pre, inv, ¬condition}: the fact set is emptied first and the inverted loop condition is appended", fl, core.Query{
					Exit:   func(x ast.Node) bool { return x.Pos() >= postProve.Pos() && x.End() <= postProve.End() && isAssert(x) },
					Events: []core.Event{reset}})
				k.mustPass("F-i.post.inverse", name+"[post conditions]", "…and the inverted loop condition is among the assumptions", fl, core.Query{
					Start: func(x ast.Node) bool { return x == r0 },
					Exit:  func(x ast.Node) bool { return x.Pos() >= postProve.Pos() && x.End() <= postProve.End() && isAssert(x) },
					Events: []core.Event{core.CallEvent(func(call *ast.CallExpr) bool {
						return nameIs(fl, call, "invert") && len(call.Args) == 2 && fl.MethodChain(fl.Is(n), "Condition")(call.Args[1])
					})}})
				k.passChecked("F-i.post.prove", name+"[post conditions]", "inside that loop every post condition is proved", fl,
					core.Query{Region: core.RegionOf(postProve.Body), FallOut: true,
						Exempt: func(cond ast.Expr, ci *core.CondInfo, taken bool) bool {
							return !taken && eqTest(fl, cond, kw, fl.Is(tok("IDPost")), true)
						}}, fl.Call(bcheckAssert))
				// assumptions added between r0 and the post proofs exclude post conditions
				for _, rs := range loops {
					if classify(rs) == "assume" && rs.Pos() > r0.Pos() && rs.End() < postProve.Pos() {
						k.mustPass("F-i.post.assume", name+"[post conditions][assume]", "only pre/inv conditions are assumed when proving post conditions", fl, core.Query{
							Region: core.RegionOf(rs.Body),
							Exit:   func(x ast.Node) bool { return core.Guaranteed(x, factsMethod(fl, "appendFact")) },
							Events: []core.Event{{Edge: func(cond ast.Expr, ci *core.CondInfo, taken bool) bool {
								return !taken && eqTest(fl, cond, kw, fl.Is(tok("IDPost")), true)
							}}}})
					}
				}
				// skipping the post proofs is allowed only for `while true`
				k.mustPass("F-i.post.reach", name+"[post conditions]", "the post-condition proofs are skipped only when the loop condition is the constant true", fl, core.Query{
					Exit:   func(x ast.Node) bool { return x == r1 },
					Events: []core.Event{{Node: func(x ast.Node) bool { return x.Pos() >= postProve.Pos() && x.End() <= postProve.End() }}},
					Exempt: func(cond ast.Expr, ci *core.CondInfo, taken bool) bool {
						// cv != nil && cv.Cmp(one) == 0
						parts := flattenAnd(cond)
						if !taken || len(parts) != 2 {
							return false
						}
						cv := fl.Denotes(fl.MethodChain(fl.MethodChain(fl.Is(n), "Condition"), "ConstValue"))
						if !nilTest(fl, parts[0], cv, false) {
							return false
						}
						a, b, rel, ok := cmpAtom(fl, parts[1])
						one := k.g.LookupObj(relCheck, "one")
						return ok && rel == token.EQL && cv(a) && fl.Is(one)(b)
					}})
			}
			// (iii) body
			k.mustPass("F-i.body.from", name+"[body]", "the loop body is checked from an emptied fact set plus {pre, inv, condition}", fl, core.Query{
				Start: func(x ast.Node) bool { return x == r0 || (postProve == nil && x == entry) },
				Exit:  isBody, Events: []core.Event{{Node: func(x ast.Node) bool { return x == r1 }}},
				Exempt: func(cond ast.Expr, ci *core.CondInfo, taken bool) bool { return false }})
			k.mustPass("F-i.body.reset", name+"[body]", "the body check is preceded by the second reset", fl, core.Query{
				Exit: isBody, Events: []core.Event{{Node: func(x ast.Node) bool { return x == r1 }}}})
			for _, rs := range loops {
				if classify(rs) == "assume" && rs.Pos() > r1.Pos() && rs.End() < r2.Pos() {
					k.mustPass("F-i.body.assume", name+"[body][assume]", "only pre/inv conditions (not post) are assumed inside the body", fl, core.Query{
						Region: core.RegionOf(rs.Body),
						Exit:   func(x ast.Node) bool { return core.Guaranteed(x, factsMethod(fl, "appendFact")) },
						Events: []core.Event{{Edge: func(cond ast.Expr, ci *core.CondInfo, taken bool) bool {
							return !taken && eqTest(fl, cond, kw, fl.Is(tok("IDPost")), true)
						}}}})
				}
			}
			// implicit continue
			var backLoop *ast.RangeStmt
			for _, rs := range loops {
				if classify(rs) == "prove" && rs.Pos() > r1.Pos() && rs.End() < r2.Pos() {
					backLoop = rs
				}
			}
			if backLoop == nil {
				c.Undecided("F-i.backedge", name+"[implicit continue]", "a loop re-proving the conditions after the body", "not found")
			} else {
				k.mustPass("F-i.backedge", name+"[implicit continue]", "after the body, unless it terminates, pre and inv are proved again (the implicit continue)", fl,
					core.Query{Start: isBody, Exit: func(x ast.Node) bool { return x == r2 },
						Events: []core.Event{{Node: func(x ast.Node) bool { return x.Pos() >= backLoop.Pos() && x.End() <= backLoop.End() }}},
						Exempt: func(cond ast.Expr, ci *core.CondInfo, taken bool) bool {
							e, neg := boolCond(cond)
							call, ok := e.(*ast.CallExpr)
							return ok && nameIs(fl, call, "Terminates") && len(call.Args) == 1 && fl.MethodChain(fl.Is(n), "Body")(call.Args[0]) && taken != neg
						}})
			}
			for _, rs := range loops {
				if classify(rs) == "prove" && rs.Pos() > r1.Pos() && rs.End() < r2.Pos() {
					k.passChecked("F-i.backedge.all", name+"[implicit continue][range asserts]", "…every one of them except post", fl,
						core.Query{Region: core.RegionOf(rs.Body), FallOut: true, Exempt: skipEdge("IDPost")}, fl.Call(bcheckAssert))
				}
			}
			// the body is checked unless the condition is constant false
			k.passChecked("F-i.body.reach", name+"[body]", "the body is checked unless the loop condition is the constant false", fl,
				core.Query{Exit: func(x ast.Node) bool { return x == r2 },
					Exempt: func(cond ast.Expr, ci *core.CondInfo, taken bool) bool {
						parts := flattenAnd(cond)
						if !taken || len(parts) != 2 {
							return false
						}
						cv := fl.Denotes(fl.MethodChain(fl.MethodChain(fl.Is(n), "Condition"), "ConstValue"))
						if !nilTest(fl, parts[0], cv, false) {
							return false
						}
						s, ok := signSet(fl, parts[1], cv)
						return ok && s == "0"
					}},
				fl.Call(bcheckBlock, fl.MethodChain(fl.Is(n), "Body")))
			// (iv) exit
			k.mustPass("F-i.exit.reset", name+"[exit]", "on loop exit the fact set is emptied…", fl, core.Query{Exit: fl.SuccessReturn, FuncEnd: true, Events: []core.Event{{Node: func(x ast.Node) bool { return x == r2 }}}})
			for _, rs := range loops {
				if rs.Pos() > r2.Pos() {
					k.mustPass("F-i.exit.assume", name+"[exit][assume]", "…and only inv and post conditions (not pre) are assumed afterwards", fl, core.Query{
						Region: core.RegionOf(rs.Body),
						Exit:   func(x ast.Node) bool { return core.Guaranteed(x, factsMethod(fl, "appendFact")) },
						Events: []core.Event{{Edge: func(cond ast.Expr, ci *core.CondInfo, taken bool) bool {
							return !taken && eqTest(fl, cond, kw, fl.Is(tok("IDPre")), true)
						}}}})
				}
			}
			// nothing else is added after the final reset
			nAfter := 0
			ast.Inspect(fl.F.Decl.Body, func(m ast.Node) bool {
				if call, ok := m.(*ast.CallExpr); ok && call.Pos() > r2.Pos() && (factsMethod(fl, "appendFact")(call) || factsMethod(fl, "appendBinaryOpFact")(call)) {
					nAfter++
				}
				return true
			})
			c.Check(nAfter == 1, "F-i.exit.only", name+"[exit]", "after the final reset facts are added at exactly one place (the inv/post loop)", nAfter, "")
		}
	}

	// ================= bcheckIf / unify =================
	if fl := k.flow("F-j", relCheck, "checker", "bcheckIf"); fl != nil {
		name := fl.F.Name()
		unify := k.fn("F-j", relCheck, "checker", "unify")
		snapshot := k.fn("F-j", relCheck, "", "snapshot")
		snapVars := fl.VarsDenoting(func(e ast.Expr) bool {
			call, ok := ast.Unparen(e).(*ast.CallExpr)
			return ok && fl.Call(snapshot, func(a ast.Expr) bool { return isFactsField(fl, a) })(call)
		})
		snapP := anyOf(fl, snapVars)
		branchVars := fl.VarsDenoting(func(e ast.Expr) bool {
			call, ok := ast.Unparen(e).(*ast.CallExpr)
			if !ok {
				return false
			}
			id, ok := call.Fun.(*ast.Ident)
			return ok && id.Name == "append" && len(call.Args) == 2 && core.AnyCall(call.Args[1], func(cc *ast.CallExpr) bool { return fl.Call(snapshot)(cc) })
		})
		brP := anyOf(fl, branchVars)
		k.mustPass("F-j.unify", name, "an if statement ends by reconciling its arms: unify(branches)", fl, core.Query{Exit: fl.SuccessReturn, FuncEnd: true,
			Events: []core.Event{core.CallEvent(fl.Call(unify, brP))}})
		isTrueBody := func(x ast.Node) bool {
			return core.Guaranteed(x, fl.Call(bcheckBlock, func(e ast.Expr) bool { return callNamedOn(fl, e, "BodyIfTrue", nil) }))
		}
		isRestore := func(x ast.Node) bool { return isFactsRestore(fl, x, snapP) }
		k.mustPass("F-j.restore", name+"[else arm]", "after the if-true arm is checked, the fact set is restored from the snapshot taken before the condition, before anything else is assumed or checked", fl, core.Query{
			Start: isTrueBody,
			Exit: func(x ast.Node) bool {
				if isTrueBody(x) {
					return true
				}
				return core.Guaranteed(x, func(call *ast.CallExpr) bool {
					return factsMethod(fl, "appendFact")(call) || (fl.Call(bcheckBlock)(call)) || fl.Call(unify)(call) || nameIs(fl, call, "bcheckExpr")
				})
			},
			Events: []core.Event{{Node: isRestore}}})
		k.mustPass("F-j.snapshot", name, "the snapshot is taken before the condition's fact is assumed", fl, core.Query{
			Exit: func(x ast.Node) bool { return core.Guaranteed(x, factsMethod(fl, "appendFact")) },
			Events: []core.Event{{Node: func(x ast.Node) bool {
				return core.Guaranteed(x, fl.Call(snapshot, func(a ast.Expr) bool { return isFactsField(fl, a) }))
			}}}})
		// terminated arms are excluded from the reconciliation
		appendBranch := func(x ast.Node) bool {
			as, ok := x.(*ast.AssignStmt)
			return ok && len(as.Lhs) == 1 && brP(as.Lhs[0]) && len(as.Rhs) == 1 && core.AnyCall(as.Rhs[0], func(cc *ast.CallExpr) bool { return fl.Call(snapshot)(cc) })
		}
		nApp := 0
		ast.Inspect(fl.F.Decl.Body, func(m ast.Node) bool {
			if appendBranch(m) {
				nApp++
			}
			return true
		})
		c.Floor("F-j.branches", "places where an arm's facts are recorded for reconciliation", nApp, 3)
		k.mustPass("F-j.terminated", name+"[if-true arm]", "an arm that terminates (return/break/continue) does not take part in the reconciliation", fl, core.Query{
			Start: isTrueBody,
			Exit:  appendBranch,
			Events: []core.Event{{Edge: func(cond ast.Expr, ci *core.CondInfo, taken bool) bool {
				e, neg := boolCond(cond)
				call, ok := e.(*ast.CallExpr)
				return ok && nameIs(fl, call, "Terminates") && taken == neg && neg
			}}, {Node: isRestore}}})
		// the inverse condition is assumed in the else arm
		k.mustPass("F-j.inverse", name+"[else arm]", "the else arm assumes the inverted condition (unless constant)", fl, core.Query{
			Start: isRestore,
			Exit: func(x ast.Node) bool {
				return core.Guaranteed(x, func(call *ast.CallExpr) bool { return fl.Call(bcheckBlock)(call) || fl.Call(unify)(call) }) || appendBranch(x)
			},
			Events: []core.Event{core.CallEvent(func(call *ast.CallExpr) bool { return nameIs(fl, call, "invert") })},
			Exempt: func(cond ast.Expr, ci *core.CondInfo, taken bool) bool {
				return !taken && nilTest(fl, cond, func(e ast.Expr) bool { return callNamedOn(fl, e, "ConstValue", nil) }, true)
			}})
	}
	if fl := k.flow("F-j", relCheck, "checker", "unify"); fl != nil {
		name := fl.F.Name()
		branches := fl.Param(0)
		lits := findLits(fl.F.Decl.Body)
		if len(lits) != 1 {
			c.Undecided("F-j.intersect", name, "unify filters facts through one closure", fmt.Sprintf("%d closures", len(lits)))
		} else {
			ll := core.NewFlowLit(fl.F, lits[0])
			k.mustPass("F-j.intersect", name+"[closure]", "a fact survives an if/else only if it holds in every non-terminated arm: kept iff its count equals len(branches)", ll, core.Query{
				Exit: func(x ast.Node) bool { isr, isnil := firstResultNil(ll, x); return isr && !isnil },
				Events: []core.Event{{Edge: func(cond ast.Expr, ci *core.CondInfo, taken bool) bool {
					be, ok := ast.Unparen(cond).(*ast.BinaryExpr)
					if !ok {
						return false
					}
					isLen := func(e ast.Expr) bool {
						call, ok := ast.Unparen(e).(*ast.CallExpr)
						if !ok || len(call.Args) != 1 {
							return false
						}
						id, ok := call.Fun.(*ast.Ident)
						return ok && id.Name == "len" && fl.Is(branches)(call.Args[0])
					}
					isCnt := func(e ast.Expr) bool { _, ok := ast.Unparen(e).(*ast.IndexExpr); return ok }
					if !((isLen(be.X) && isCnt(be.Y)) || (isLen(be.Y) && isCnt(be.X))) {
						return false
					}
					return (be.Op == token.EQL && taken) || (be.Op == token.NEQ && !taken)
				}}}})
			// counting: one increment per (branch, fact)
			nInc := 0
			ast.Inspect(fl.F.Decl.Body, func(m ast.Node) bool {
				if inc, ok := m.(*ast.IncDecStmt); ok && inc.Tok == token.INC {
					if _, ok := inc.X.(*ast.IndexExpr); ok {
						nInc++
					}
				}
				return true
			})
			c.Check(nInc == 1, "F-j.count", name, "fact occurrences are counted once per arm", nInc, "")
		}
	}

	// ================= updateFactsForSuspension =================
	if fl := k.flow("F-k", relCheck, "", "updateFactsForSuspension"); fl != nil {
		name := fl.F.Name()
		x := fl.Param(0)
		errNil := k.obj("F-k", relCheck, "errUpdateReturnsNil")
		lits := findLits(fl.F.Decl.Body)
		if len(lits) != 1 {
			c.Undecided("F-k.walk", name, "one walk closure", fmt.Sprintf("%d closures", len(lits)))
		} else {
			ll := core.NewFlowLit(fl.F, lits[0])
			contWalk := func(n ast.Node) bool {
				r, ok := n.(*ast.ReturnStmt)
				return ok && len(r.Results) == 1 && core.IsNilIdent(ll.F.Info(), r.Results[0])
			}
			exprOnly := func(cond ast.Expr, ci *core.CondInfo, taken bool) bool {
				// non-expression nodes carry no value
				return taken && eqTest(ll, cond, func(e ast.Expr) bool { return callNamedOn(ll, e, "Kind", nil) }, ll.Is(k.obj("F-k", "lang/ast", "KExpr")), false)
			}
			k.mustPass("F-k.pointers", name+"[walk]", "a fact mentioning any pointer-typed sub-expression is dropped at a suspension point", ll, core.Query{
				Exit: contWalk, Exempt: exprOnly,
				Events: []core.Event{{Edge: func(cond ast.Expr, ci *core.CondInfo, taken bool) bool {
					e, neg := boolCond(cond)
					return callNamedOn(ll, e, "HasPointers", func(r ast.Expr) bool { return callNamedOn(ll, r, "MType", nil) }) && taken == neg
				}}}})
			// args / this
			nCase := 0
			ast.Inspect(lits[0].Body, func(m ast.Node) bool {
				cc, ok := m.(*ast.CaseClause)
				if !ok {
					return true
				}
				hasArgs, hasThis := false, false
				for _, e := range cc.List {
					if ll.Is(k.obj("F-k", "lang/token", "IDArgs"))(e) {
						hasArgs = true
					}
					if ll.Is(k.obj("F-k", "lang/token", "IDThis"))(e) {
						hasThis = true
					}
				}
				if hasArgs && hasThis && len(cc.Body) == 1 {
					if r, ok := cc.Body[0].(*ast.ReturnStmt); ok && len(r.Results) == 1 && ll.Is(errNil)(r.Results[0]) {
						nCase++
					}
				}
				return true
			})
			c.Check(nCase == 1, "F-k.argsthis", name+"[walk]", "a fact mentioning args or this is dropped at a suspension point (both identifiers lead to errUpdateReturnsNil)", nCase, "")
			// the identifier switch is reached for every plain identifier: Operator() == 0
			k.mustPass("F-k.ident", name+"[walk]", "every plain identifier node is examined", ll, core.Query{
				Exit: contWalk, Exempt: func(cond ast.Expr, ci *core.CondInfo, taken bool) bool {
					if exprOnly(cond, ci, taken) {
						return true
					}
					// Operator() != 0 ⇒ not an identifier
					v, _ := core.ConstInt64(ll.F.Info(), func() ast.Expr {
						if be, ok := ast.Unparen(cond).(*ast.BinaryExpr); ok {
							return be.Y
						}
						return cond
					}())
					be, ok := ast.Unparen(cond).(*ast.BinaryExpr)
					if !ok || v != 0 || !callNamedOn(ll, be.X, "Operator", nil) {
						return false
					}
					return (be.Op == token.EQL && !taken) || (be.Op == token.NEQ && taken)
				},
				Events: []core.Event{{Node: func(n ast.Node) bool { return callNamedOn(ll, exprOf(n), "Ident", nil) }}}})
		}
		// outer: errUpdateReturnsNil ⇒ (nil, nil); other error ⇒ error; else keep
		errv := func(e ast.Expr) bool { o := fl.Obj(e); return o != nil && o.Type().String() == "error" && o != errNil }
		k.mustPass("F-k.drop", name, "when the walk reports a mention, the fact is dropped (nil), otherwise kept", fl, core.Query{
			Exit: func(n ast.Node) bool {
				r, ok := n.(*ast.ReturnStmt)
				return ok && len(r.Results) == 2 && fl.Is(x)(r.Results[0])
			},
			Events: []core.Event{{Edge: func(cond ast.Expr, ci *core.CondInfo, taken bool) bool {
				return (!taken && eqTest(fl, cond, errv, fl.Is(errNil), true)) || (taken && eqTest(fl, cond, errv, fl.Is(errNil), false))
			}}}})
		k.mustPass("F-k.walked", name, "a fact is kept only after its whole tree has been walked", fl, core.Query{
			Exit: func(n ast.Node) bool {
				r, ok := n.(*ast.ReturnStmt)
				return ok && len(r.Results) == 2 && fl.Is(x)(r.Results[0])
			},
			Events: []core.Event{{Node: func(n ast.Node) bool {
				return core.Guaranteed(n, func(call *ast.CallExpr) bool { return nameIs(fl, call, "Walk") })
			}}}})
	}
}

func exprOf(n ast.Node) ast.Expr {
	switch x := n.(type) {
	case ast.Expr:
		return x
	case *ast.ExprStmt:
		return x.X
	case *ast.AssignStmt:
		if len(x.Rhs) == 1 {
			return x.Rhs[0]
		}
	}
	return &ast.BadExpr{}
}
