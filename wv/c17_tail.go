package main

import (
	"fmt"
	"go/ast"
	"go/token"
	"go/types"
	"regexp"
	"sort"
	"strings"

	"wv/core"
)

func leByte(v string, k int) string {
	return "conv:uint8(" + mk("shr", v, fmt.Sprintf("#%d", 8*k)) + ")"
}

// stmtBefore returns the statement preceding target in the block that holds it.
func stmtBefore(body *ast.BlockStmt, target ast.Stmt) ast.Stmt {
	var prev ast.Stmt
	ast.Inspect(body, func(n ast.Node) bool {
		b, ok := n.(*ast.BlockStmt)
		if !ok {
			return true
		}
		for i, s := range b.List {
			if s == target && i > 0 {
				prev = b.List[i-1]
			}
		}
		return true
	})
	return prev
}

// mentionsConstIndex: n contains an index expression on the given string constant.
func mentionsConstIndex(info *types.Info, n ast.Node, obj types.Object) bool {
	found := false
	ast.Inspect(n, func(m ast.Node) bool {
		if ix, ok := m.(*ast.IndexExpr); ok {
			if id, ok := ast.Unparen(ix.X).(*ast.Ident); ok && info.Uses[id] == obj {
				found = true
			}
		}
		return !found
	})
	return found
}

// K3.crc / K3.footer / K3.index / K4.pad
func (r *c17) xzTail() {
	c, g := r.c, r.k.g
	ef := r.k.flow("K3.tail", relLzma, "", "encodeXz")
	df := r.k.flow("K3.tail", relLzma, "", "decodeXz")
	hobj := g.LookupObj(relLzma, "xzHeader24")
	h, okh := constString(hobj)
	if ef == nil || df == nil || !okh || len(h) != 24 {
		return
	}
	ea, da := ef.F.Name(), df.F.Name()
	both := ea + " ~ " + da
	einfo, dinfo := ef.F.Info(), df.F.Info()

	// ---- K3.crc.ieee: only hash/crc32.ChecksumIEEE is used, 3 + 3 times.
	p := g.Pkg(relLzma)
	nUses, badUse := 0, ""
	for id, o := range p.TypesInfo.Uses {
		if o.Pkg() != nil && o.Pkg().Path() == "hash/crc32" {
			nUses++
			if fn, ok := o.(*types.Func); !ok || fn.Name() != "ChecksumIEEE" {
				badUse = g.Pos(id.Pos()) + ": uses hash/crc32." + o.Name()
			}
		}
	}
	crcCalls := func(fl *core.Flow) (out []*ast.CallExpr) {
		ast.Inspect(fl.F.Decl.Body, func(n ast.Node) bool {
			if call, ok := n.(*ast.CallExpr); ok {
				if fn := core.Callee(fl.F.Info(), call); fn != nil && fn.FullName() == "hash/crc32.ChecksumIEEE" {
					out = append(out, call)
				}
			}
			return true
		})
		return
	}
	ecalls, dcalls := crcCalls(ef), crcCalls(df)
	c.Check(badUse == "" && len(ecalls) == 3 && len(dcalls) == 3 && nUses == 6, "K3.crc.ieee", both,
		"every checksum in the package is hash/crc32.ChecksumIEEE (the CRC-32 that XZ check type 0x01 and its header/index/footer fields require): three in the encoder (content, index, footer), three in the decoder, no other crc32 API", nUses,
		fmt.Sprintf("%s %d ChecksumIEEE calls in encodeXz, %d in decodeXz, %d uses of hash/crc32 in the package", badUse, len(ecalls), len(dcalls), nUses))

	// checksum variables: locals assigned from a ChecksumIEEE call
	ckVars := func(fl *core.Flow) []types.Object {
		return fl.VarsDenoting(func(e ast.Expr) bool {
			call, ok := ast.Unparen(e).(*ast.CallExpr)
			if !ok {
				return false
			}
			fn := core.Callee(fl.F.Info(), call)
			return fn != nil && fn.FullName() == "hash/crc32.ChecksumIEEE"
		})
	}
	ex, dx := newSymx(einfo), newSymx(dinfo)
	edst, esrc := ef.Param(0), ef.Param(1)
	ddst, dsrc := df.Param(0), df.Param(1)
	ex.names[edst], ex.names[esrc] = "DST", "SRC"
	dx.names[ddst], dx.names[dsrc] = "DST", "SRC"
	for _, v := range ckVars(ef) {
		ex.names[v] = "CK"
	}
	for _, v := range ckVars(df) {
		dx.names[v] = "CK"
	}
	isCKByte := regexp.MustCompile(`^conv:uint8\((CK|shr\(CK,#\d+\))\)$`)

	// ---- encoder LE groups
	encGroups, encStray := 0, ""
	storeShift := map[string]string{} // index expr -> value
	ast.Inspect(ef.F.Decl.Body, func(n ast.Node) bool {
		switch v := n.(type) {
		case *ast.CallExpr:
			if id, ok := ast.Unparen(v.Fun).(*ast.Ident); !ok || id.Name != "append" || len(v.Args) < 2 {
				return true
			}
			args := make([]string, len(v.Args))
			for i, a := range v.Args {
				args[i] = ex.eval(a, nil)
			}
			for i := 1; i < len(args); i++ {
				if !isCKByte.MatchString(args[i]) {
					continue
				}
				if i+3 < len(args) && args[i] == leByte("CK", 0) && args[i+1] == leByte("CK", 1) && args[i+2] == leByte("CK", 2) && args[i+3] == leByte("CK", 3) {
					encGroups++
					i += 3
				} else {
					encStray = g.Pos(v.Args[i].Pos()) + ": checksum byte " + args[i] + " is not part of a 4-byte little-endian run"
				}
			}
		case *ast.AssignStmt:
			if len(v.Lhs) == 1 && len(v.Rhs) == 1 {
				if ix, ok := ast.Unparen(v.Lhs[0]).(*ast.IndexExpr); ok && ef.Obj(ix.X) == edst {
					val := ex.eval(v.Rhs[0], nil)
					if isCKByte.MatchString(val) {
						storeShift[ex.eval(ix.Index, nil)] = val
					}
				}
			}
		}
		return true
	})

	// ---- footer, encoder side
	var fcall *ast.CallExpr
	var fstmt ast.Stmt
	for _, s := range ef.F.Decl.Body.List {
		if call := appendTo(ef, s, edst); call != nil && mentionsConstIndex(einfo, call, hobj) {
			fcall, fstmt = call, s
		}
	}
	var dfoot *ast.IfStmt
	for _, is := range ifConds(df.F.Decl.Body) {
		if mentionsConstIndex(dinfo, is.Cond, hobj) {
			dfoot = is
		}
	}
	if fcall == nil || dfoot == nil {
		c.Undecided("K3.footer", both, "the footer write (an append that repeats xzHeader24's stream flags) and the footer test (an if comparing against them) exist", "not found")
	} else {
		// BASE: variable defined as len(dst) by the statement just before the footer append
		var base types.Object
		if prev, ok := stmtBefore(ef.F.Decl.Body, fstmt).(*ast.AssignStmt); ok && len(prev.Lhs) == 1 && len(prev.Rhs) == 1 && ex.eval(prev.Rhs[0], nil) == "len(DST)" {
			base = ef.Obj(prev.Lhs[0])
		}
		if base != nil {
			ex.names[base] = "BASE"
		}
		// BW: the variable inside argument 5
		var ebw types.Object
		if len(fcall.Args) > 5 {
			ast.Inspect(fcall.Args[5], func(m ast.Node) bool {
				if id, ok := m.(*ast.Ident); ok {
					if v, ok := einfo.Uses[id].(*types.Var); ok && ebw == nil {
						ebw = v
					}
				}
				return true
			})
		}
		ebwDef := ""
		if ebw != nil {
			d, _ := ex.assignmentsTo(ef.F.Decl.Body, ebw)
			ebwDef = strings.Join(d, ";")
			ex.names[ebw] = "BW"
		}
		var eargs []string
		for _, a := range fcall.Args[1:] {
			eargs = append(eargs, ex.eval(a, nil))
		}
		want := []string{"#0", "#0", "#0", "#0", leByte("BW", 0), leByte("BW", 1), leByte("BW", 2), leByte("BW", 3),
			fmt.Sprintf("#%d", h[6]), fmt.Sprintf("#%d", h[7]), "#89", "#90"}
		c.Check(strings.Join(eargs, " ") == strings.Join(want, " "), "K3.footer.enc", ea,
			"stream footer as written: 4 bytes reserved for the CRC, backward size little-endian, the two stream-flag bytes of the header again, magic 59 5A ('YZ')", len(eargs),
			fmt.Sprintf("%s: [%s]; expected [%s]", g.Pos(fcall.Pos()), strings.Join(eargs, " "), strings.Join(want, " ")))
		// CRC range and stores (re-evaluated now that BASE is named)
		eRange, eStores := "", 0
		for _, call := range ecalls {
			s := ex.eval(call.Args[0], nil)
			if strings.Contains(s, "BASE") {
				eRange = s
			}
		}
		for k := 0; k < 4; k++ {
			idx := mk("add", "BASE", fmt.Sprintf("#%d", k))
			found := false
			ast.Inspect(ef.F.Decl.Body, func(n ast.Node) bool {
				if v, ok := n.(*ast.AssignStmt); ok && len(v.Lhs) == 1 && len(v.Rhs) == 1 && v.Pos() > fstmt.End() {
					if ix, ok := ast.Unparen(v.Lhs[0]).(*ast.IndexExpr); ok && ef.Obj(ix.X) == edst && ex.eval(ix.Index, nil) == idx && ex.eval(v.Rhs[0], nil) == leByte("CK", k) {
						found = true
					}
				}
				return true
			})
			if found {
				eStores++
			}
		}
		if eStores == 4 {
			encGroups++
		}
		okRange := eRange == "slice(DST,"+mk("add", "BASE", "#4")+","+mk("add", "BASE", "#10")+")"
		c.Check(base != nil && okRange && eStores == 4, "K3.footer.enc.crc", ea,
			"the footer CRC is ChecksumIEEE of footer bytes [4,10) (backward size + stream flags) stored little-endian into footer bytes 0..3", 5,
			fmt.Sprintf("%s: footer base found=%v, CRC range %s, little-endian stores found %d of 4 (indexed stores seen: %v)", g.Pos(fcall.Pos()), base != nil, eRange, eStores, storeShift))

		// decoder side
		var dbw types.Object
		got := map[int]string{}
		for _, dj := range flattenOr(dfoot.Cond) {
			be, ok := ast.Unparen(dj).(*ast.BinaryExpr)
			if !ok || be.Op != token.NEQ {
				got[-1] = "non-!= disjunct " + core.Src(g.Fset, dj)
				continue
			}
			l, rr := be.X, be.Y
			if _, ok := ast.Unparen(l).(*ast.IndexExpr); !ok {
				l, rr = rr, l
			}
			var k int
			if _, err := fmt.Sscanf(dx.eval(l, nil), "idx(SRC,#%d)", &k); err != nil {
				got[-1] = "unrecognised comparand " + core.Src(g.Fset, dj)
				continue
			}
			if k >= 4 && k < 8 && dbw == nil {
				ast.Inspect(rr, func(m ast.Node) bool {
					if id, ok := m.(*ast.Ident); ok {
						if v, ok := dinfo.Uses[id].(*types.Var); ok && dbw == nil {
							dbw = v
							dx.names[v] = "BW"
						}
					}
					return true
				})
			}
			got[k] = dx.eval(rr, nil)
		}
		dbwDef := ""
		if dbw != nil {
			delete(dx.names, dbw)
			d, _ := dx.assignmentsTo(df.F.Decl.Body, dbw)
			dbwDef = strings.Join(d, ";")
			dx.names[dbw] = "BW"
		}
		var diffs []string
		for k := 0; k < 12; k++ {
			w := want[k]
			if k < 4 {
				w = leByte("CK", k)
			}
			if got[k] != w {
				diffs = append(diffs, fmt.Sprintf("byte %d: decoder requires %q, encoder writes %q", k, got[k], w))
			}
		}
		if e, ok := got[-1]; ok {
			diffs = append(diffs, e)
		}
		// CRC computed immediately before over src[4:10]; followed by return src[12:]
		dRange := ""
		if prev, ok := stmtBefore(df.F.Decl.Body, dfoot).(*ast.AssignStmt); ok && len(prev.Rhs) == 1 {
			if call, ok := ast.Unparen(prev.Rhs[0]).(*ast.CallExpr); ok && len(call.Args) == 1 {
				if fn := core.Callee(dinfo, call); fn != nil && fn.FullName() == "hash/crc32.ChecksumIEEE" && dx.eval(prev.Lhs[0], nil) == "CK" {
					dRange = dx.eval(call.Args[0], nil)
				}
			}
		}
		rest := ""
		isLast := false
		for i, s := range df.F.Decl.Body.List {
			if s == ast.Stmt(dfoot) && i+1 < len(df.F.Decl.Body.List) {
				if rs, ok := df.F.Decl.Body.List[i+1].(*ast.ReturnStmt); ok && len(rs.Results) == 3 && df.SuccessReturn(rs) {
					rest = dx.eval(rs.Results[1], nil)
					isLast = i+2 == len(df.F.Decl.Body.List)
				}
			}
		}
		okD := len(diffs) == 0 && dRange == "slice(SRC,#4,#10)" && rest == "slice(SRC,#12,)" && isLast && endsInErrorReturn(df, dfoot.Body) && dfoot.Else == nil
		c.Check(okD, "K3.footer.twin", both,
			"the decoder's final test requires, byte for byte, the 12 footer bytes the encoder writes (CRC little-endian over footer bytes [4,10), backward size little-endian, stream flags, 'YZ'), fails otherwise, and on success returns src[12:]", 12,
			fmt.Sprintf("%s: %s; CRC range %s; success remainder %s", g.Pos(dfoot.Pos()), strings.Join(diffs, "; "), dRange, rest))
		re := regexp.MustCompile(`^shr\(sub\(.*\),#2\)$`)
		c.Check(re.MatchString(ebwDef) && re.MatchString(dbwDef), "K3.footer.bw", both, "backward size is (a byte length) >> 2 on both sides (XZ stores the index size in 4-byte units)", 2,
			fmt.Sprintf("%s: encoder backwardSize = %s; decoder backwardSize = %s", g.Pos(fcall.Pos()), ebwDef, dbwDef))
	}

	// ---- decoder LE groups: every if that compares src[k] with a checksum byte
	decGroups, decStray := 0, ""
	for _, is := range ifConds(df.F.Decl.Body) {
		have := map[int]bool{}
		any := false
		for _, dj := range flattenOr(is.Cond) {
			be, ok := ast.Unparen(dj).(*ast.BinaryExpr)
			if !ok {
				continue
			}
			l, rr := dx.eval(be.X, nil), dx.eval(be.Y, nil)
			if isCKByte.MatchString(l) {
				l, rr = rr, l
			}
			if !isCKByte.MatchString(rr) {
				continue
			}
			any = true
			var k int
			if _, err := fmt.Sscanf(l, "idx(SRC,#%d)", &k); err == nil && be.Op == token.NEQ && k < 4 && rr == leByte("CK", k) {
				have[k] = true
			} else {
				decStray = g.Pos(dj.Pos()) + ": " + l + " compared with " + rr
			}
		}
		if any {
			if len(have) == 4 && endsInErrorReturn(df, is.Body) {
				decGroups++
			} else if decStray == "" {
				decStray = g.Pos(is.Pos()) + ": incomplete checksum comparison (bytes " + fmt.Sprint(len(have)) + " of 4) or no error return"
			}
		}
	}
	c.Check(encGroups == 3 && decGroups == 3 && encStray == "" && decStray == "", "K3.crc.le", both,
		"each of the three CRC-32 values is written as 4 little-endian bytes and the decoder compares src[0..3] with the same 4 little-endian bytes of its own CRC, failing on any difference", encGroups+decGroups,
		fmt.Sprintf("encoder groups %d, decoder groups %d %s %s", encGroups, decGroups, encStray, decStray))

	// ---- K3.crc.content
	{
		nE := 0
		for _, call := range ecalls {
			if ef.Obj(call.Args[0]) == esrc {
				nE++
			}
		}
		dx2 := newSymx(dinfo)
		dx2.names[ddst] = "DST"
		// leading definitions only
		for _, s := range df.F.Decl.Body.List {
			as, ok := s.(*ast.AssignStmt)
			if !ok || as.Tok != token.DEFINE || len(as.Lhs) != 1 {
				break
			}
			if o := df.Obj(as.Lhs[0]); o != nil && !assignsToOutside(dinfo, df.F.Decl.Body, o, as) {
				if dx2.inline == nil {
					dx2.inline = map[types.Object]ast.Expr{}
				}
				dx2.inline[o] = as.Rhs[0]
			}
		}
		nD := 0
		for _, call := range dcalls {
			if dx2.eval(call.Args[0], nil) == "slice(DST,len(DST),)" {
				nD++
			}
		}
		c.Check(nE == 1 && nD == 1, "K3.crc.content", both, "the block check is the CRC-32 of the whole uncompressed input on the encoder side and of exactly the bytes appended to dst (dst[len(dst at entry):]) on the decoder side", 2,
			fmt.Sprintf("%s: %d ChecksumIEEE(src) in the encoder; %s: %d ChecksumIEEE(dst[originalLen:]) in the decoder", g.Pos(ef.F.Decl.Pos()), nE, g.Pos(df.F.Decl.Pos()), nD))
	}

	r.xzIndex(ef, df, ex, dx)
	r.xzPadding(ef, df)
}

// assignsToOutside: obj is written somewhere other than by stmt `except`.
func assignsToOutside(info *types.Info, body ast.Node, obj types.Object, except ast.Stmt) bool {
	found := false
	ast.Inspect(body, func(n ast.Node) bool {
		if n == ast.Node(except) {
			return false
		}
		if s, ok := n.(ast.Stmt); ok {
			switch s.(type) {
			case *ast.AssignStmt, *ast.IncDecStmt, *ast.RangeStmt:
				// look only at this statement's own targets
				switch v := s.(type) {
				case *ast.AssignStmt:
					for _, l := range v.Lhs {
						if id, ok := ast.Unparen(l).(*ast.Ident); ok && (info.Uses[id] == obj || info.Defs[id] == obj) {
							found = true
						}
					}
				case *ast.IncDecStmt:
					if id, ok := ast.Unparen(v.X).(*ast.Ident); ok && info.Uses[id] == obj {
						found = true
					}
				case *ast.RangeStmt:
					for _, e := range []ast.Expr{v.Key, v.Value} {
						if id, ok := e.(*ast.Ident); ok && (info.Uses[id] == obj || info.Defs[id] == obj) {
							found = true
						}
					}
				}
			}
		}
		if u, ok := n.(*ast.UnaryExpr); ok && u.Op == token.AND {
			if id, ok := ast.Unparen(u.X).(*ast.Ident); ok && info.Uses[id] == obj {
				found = true
			}
		}
		return !found
	})
	return found
}

// K3.index: index indicator, record count, two uvarints.
func (r *c17) xzIndex(ef, df *core.Flow, ex, dx *symx) {
	c, g := r.c, r.k.g
	ea, da := ef.F.Name(), df.F.Name()
	both := ea + " ~ " + da
	einfo, dinfo := ef.F.Info(), df.F.Info()
	encU, decU := g.LookupObj(relLzma, "encodeUvarint"), g.LookupObj(relLzma, "decodeUvarint")
	edst := ef.Param(0)
	// encoder: append(dst, 0, 1) immediately followed by two dst = encodeUvarint(dst, …)
	okE, eDetail := false, "index indicator write `dst = append(dst, 0x00, 0x01)` followed by two encodeUvarint calls not found"
	list := ef.F.Decl.Body.List
	for i, s := range list {
		call := appendTo(ef, s, edst)
		if call == nil || ex.eval(call, nil) != "append(DST,#0,#1)" || i+2 >= len(list) {
			continue
		}
		var args []string
		for _, t := range list[i+1 : i+3] {
			as, ok := t.(*ast.AssignStmt)
			if !ok || len(as.Lhs) != 1 || len(as.Rhs) != 1 || ef.Obj(as.Lhs[0]) != edst {
				break
			}
			uc, ok := ast.Unparen(as.Rhs[0]).(*ast.CallExpr)
			if !ok || core.Callee(einfo, uc) != encU || len(uc.Args) != 2 || ef.Obj(uc.Args[0]) != edst {
				break
			}
			args = append(args, ex.eval(uc.Args[1], nil))
		}
		eDetail = fmt.Sprintf("%s: index records written: %v", g.Pos(s.Pos()), args)
		okE = len(args) == 2 && args[1] == "conv:uint64(len(SRC))" && args[0] != args[1]
	}
	nEncU := 0
	ast.Inspect(ef.F.Decl.Body, func(n ast.Node) bool {
		if call, ok := n.(*ast.CallExpr); ok && core.Callee(einfo, call) == encU {
			nEncU++
		}
		return true
	})
	// decoder: guard with src[0] != 0 || src[1] != 1; src = src[2:]; two decodeUvarint, each followed by `if !ok || v != want`
	dsrc := df.Param(1)
	okD, dDetail := false, "index indicator test followed by src = src[2:] and two checked decodeUvarint calls not found"
	dl := df.F.Decl.Body.List
	for i, s := range dl {
		is, ok := s.(*ast.IfStmt)
		if !ok || !endsInErrorReturn(df, is.Body) || i+5 >= len(dl) {
			continue
		}
		d0, d1 := false, false
		for _, dj := range flattenOr(is.Cond) {
			switch dx.eval(dj, nil) {
			case mk("ne", "#0", "idx(SRC,#0)"):
				d0 = true
			case mk("ne", "#1", "idx(SRC,#1)"):
				d1 = true
			}
		}
		if !d0 || !d1 {
			continue
		}
		as, ok := dl[i+1].(*ast.AssignStmt)
		if !ok || len(as.Lhs) != 1 || df.Obj(as.Lhs[0]) != dsrc || dx.eval(as.Rhs[0], nil) != "slice(SRC,#2,)" {
			dDetail = g.Pos(dl[i+1].Pos()) + ": the index indicator test is not followed by src = src[2:]"
			continue
		}
		nChecked := 0
		var cmps []string
		for j := 0; j < 2; j++ {
			ua, ok := dl[i+2+2*j].(*ast.AssignStmt)
			gi, ok2 := dl[i+3+2*j].(*ast.IfStmt)
			if !ok || !ok2 || len(ua.Lhs) != 3 || len(ua.Rhs) != 1 || df.Obj(ua.Lhs[0]) != dsrc {
				break
			}
			uc, ok := ast.Unparen(ua.Rhs[0]).(*ast.CallExpr)
			if !ok || core.Callee(dinfo, uc) != decU || len(uc.Args) != 1 || df.Obj(uc.Args[0]) != dsrc {
				break
			}
			val, okv := df.Obj(ua.Lhs[1]), df.Obj(ua.Lhs[2])
			if val == nil || okv == nil || !endsInErrorReturn(df, gi.Body) {
				break
			}
			hasNotOK, hasCmp := false, ""
			for _, dj := range flattenOr(gi.Cond) {
				if u, ok := ast.Unparen(dj).(*ast.UnaryExpr); ok && u.Op == token.NOT && df.Obj(u.X) == okv {
					hasNotOK = true
				}
				if be, ok := ast.Unparen(dj).(*ast.BinaryExpr); ok && be.Op == token.NEQ {
					if df.Obj(be.X) == val {
						hasCmp = dx.eval(be.Y, nil)
					} else if df.Obj(be.Y) == val {
						hasCmp = dx.eval(be.X, nil)
					}
				}
			}
			if hasNotOK && hasCmp != "" {
				nChecked++
				cmps = append(cmps, hasCmp)
			}
		}
		dDetail = fmt.Sprintf("%s: %d checked decodeUvarint calls, compared with %v", g.Pos(is.Pos()), nChecked, cmps)
		okD = nChecked == 2 && strings.HasPrefix(cmps[1], "conv:uint64(sub(len(DST),")
	}
	nDecU := 0
	ast.Inspect(df.F.Decl.Body, func(n ast.Node) bool {
		if call, ok := n.(*ast.CallExpr); ok && core.Callee(dinfo, call) == decU {
			nDecU++
		}
		return true
	})
	c.Check(okE && okD && nEncU == 2 && nDecU == 2, "K3.index", both,
		"index: indicator 0x00 and record count 0x01, then exactly two uvarints (unpadded size, then uncompressed size = len(src) / bytes appended); the decoder requires the same two bytes, skips 2, and rejects when either uvarint fails to parse or differs from the size it computed itself", 6,
		fmt.Sprintf("%s (%d encodeUvarint calls); %s (%d decodeUvarint calls)", eDetail, nEncU, dDetail, nDecU))
}

// K4.pad: 4-byte alignment padding with zero bytes, in both directions.
func (r *c17) xzPadding(ef, df *core.Flow) {
	c, g := r.c, r.k.g
	ea, da := ef.F.Name(), df.F.Name()
	both := ea + " ~ " + da
	var masks []int
	// encoder: for 0 != M&(len(dst)-base) { dst = append(dst, 0) }
	ex := newSymx(ef.F.Info())
	edst := ef.Param(0)
	ex.names[edst] = "DST"
	nEnc := 0
	var bad []string
	reE := regexp.MustCompile(`^ne\(#0,and\(#(\d+),sub\(len\(DST\),u:v\d+\)\)\)$`)
	for _, s := range ef.F.Decl.Body.List {
		fs, ok := s.(*ast.ForStmt)
		if !ok || fs.Init != nil || fs.Post != nil || fs.Cond == nil {
			continue
		}
		cond := ex.eval(fs.Cond, nil)
		m := reE.FindStringSubmatch(cond)
		if m == nil {
			continue
		}
		var mask int
		fmt.Sscan(m[1], &mask)
		okBody := len(fs.Body.List) == 1
		if okBody {
			call := appendTo(ef, fs.Body.List[0], edst)
			okBody = call != nil && ex.eval(call, nil) == "append(DST,#0)"
		}
		if !okBody {
			bad = append(bad, g.Pos(fs.Pos())+": padding loop body is not exactly dst = append(dst, 0x00)")
		}
		masks = append(masks, mask)
		nEnc++
	}
	// decoder: for i := X & M; (i & M) != 0; i++ { if len(src)==0 || src[0] != 0 {return err}; src = src[1:] }
	dx := newSymx(df.F.Info())
	dsrc := df.Param(1)
	nDec := 0
	reI := regexp.MustCompile(`^and\(#(\d+),.+\)$`)
	for _, s := range df.F.Decl.Body.List {
		fs, ok := s.(*ast.ForStmt)
		if !ok || fs.Init == nil || fs.Post == nil || fs.Cond == nil {
			continue
		}
		ias, ok := fs.Init.(*ast.AssignStmt)
		if !ok || ias.Tok != token.DEFINE || len(ias.Lhs) != 1 || len(ias.Rhs) != 1 {
			continue
		}
		ctr := df.Obj(ias.Lhs[0])
		dx.names[ctr] = "I"
		init := dx.eval(ias.Rhs[0], nil)
		cond := dx.eval(fs.Cond, nil)
		mi := reI.FindStringSubmatch(init)
		var mc int
		if _, err := fmt.Sscanf(cond, "ne(#0,and(#%d,I))", &mc); err != nil || mi == nil {
			delete(dx.names, ctr)
			continue
		}
		var m0 int
		fmt.Sscan(mi[1], &m0)
		masks = append(masks, m0, mc)
		nDec++
		post := symState{}
		okPost := dx.exec([]ast.Stmt{fs.Post}, post, false, nil) == nil && len(post) == 1
		for _, v := range post {
			okPost = okPost && v == mk("add", "I", "#1")
		}
		st := symState{dx.oid(dsrc): "SRC"}
		var eff symEffects
		err := dx.exec(fs.Body.List, st, true, &eff)
		e0, z0 := false, false
		if err == nil && len(eff.guards) == 1 && endsInErrorReturn(df, eff.guards[0].Body) && fs.Body.List[0] == ast.Stmt(eff.guards[0]) {
			for _, dj := range flattenOr(eff.guards[0].Cond) {
				switch dx.eval(dj, symState{dx.oid(dsrc): "SRC"}) {
				case mk("eq", "#0", "len(SRC)"), mk("lt", "len(SRC)", "#1"), mk("le", "len(SRC)", "#0"):
					e0 = true
				case mk("ne", "#0", "idx(SRC,#0)"):
					z0 = true
				}
			}
		}
		if !(okPost && err == nil && e0 && z0 && st[dx.oid(dsrc)] == "slice(SRC,#1,)" && assignsTo(df.F.Info(), fs.Body, ctr) == false) {
			bad = append(bad, fmt.Sprintf("%s: padding loop must step i by 1, fail on missing byte (%v) or non-zero byte (%v), and consume one byte (src=%s)", g.Pos(fs.Pos()), e0, z0, st[dx.oid(dsrc)]))
		}
		delete(dx.names, ctr)
	}
	sort.Ints(masks)
	okM := len(masks) > 0 && masks[0] == 3 && masks[len(masks)-1] == 3
	c.Check(nEnc == 2 && nDec == 2 && okM && len(bad) == 0, "K4.pad", both,
		"block padding and index padding align to 4 bytes (mask 3) on both sides: the encoder appends 0x00 while the offset is misaligned; the decoder, starting from the offset & 3, requires one 0x00 per step until aligned and fails on a missing or non-zero byte", nEnc+nDec,
		fmt.Sprintf("%s: %d encoder padding loops; %s: %d decoder padding loops; masks %v; %s", g.Pos(ef.F.Decl.Pos()), nEnc, g.Pos(df.F.Decl.Pos()), nDec, masks, strings.Join(bad, "; ")))
}
