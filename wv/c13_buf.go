package main

// C13, rule family B — the two-slice pending buffer of rac.Writer
// (lib/rac/writer.go, type writeBuffer). The pending bytes are the logical
// concatenation  owned[off:] ++ borrowed  (prev[p:] ++ curr in today's source):
// `owned` is the writeBuffer's own array, `borrowed` is the caller's slice of the
// current Write call. Necessary conditions of the round trip, as structure:
//
//   B.order.exhaust  bytes are dropped from the front of `borrowed` only on paths
//                    on which `owned[off:]` is (or, by the end of the method, has
//                    been made) empty — stream order
//   B.order.amount   when a requested count spans both parts, what is dropped from
//                    `borrowed` is the count minus what `owned[off:]` held
//   B.order.peek     a two-slice view is (owned[off:…], prefix of borrowed) in that
//                    order, and has a second part only when the first is all of owned[off:]
//   B.length         the pending length is len(owned) - off + len(borrowed)
//   B.own.prev       `owned` never aliases foreign memory (only re-slices of itself,
//                    append onto itself, nil, make)
//   B.own.release    `borrowed` is dropped (set to nil) only after it has been
//                    copied onto `owned`
//
// Repaired defect behind B.order.exhaust: /repo 4409ca3.

import (
	"fmt"
	"go/ast"
	"go/token"
	"go/types"
	"sort"
	"strings"

	"wv/core"
)

type c13Buf struct {
	s                    *c13
	named                *types.Named
	owned, borrowed, off *types.Var
}

func (s *c13) ruleBuf() {
	c, k := s.c, s.k
	o := k.obj("B.order.exhaust", relRac, "writeBuffer")
	if o == nil {
		return
	}
	named, _ := o.Type().(*types.Named)
	var st *types.Struct
	if named != nil {
		st, _ = named.Underlying().(*types.Struct)
	}
	shape := "writeBuffer is a struct with two byte-slice fields and one integer offset; one slice field is assigned a method parameter (the borrowed part), the other never is (the owned part)"
	if st == nil {
		c.Undecided("B.order.exhaust", relRac+".writeBuffer", shape, "not a struct type")
		return
	}
	var slices, ints []*types.Var
	for i := 0; i < st.NumFields(); i++ {
		f := st.Field(i)
		if sl, ok := f.Type().Underlying().(*types.Slice); ok {
			if bt, ok := sl.Elem().Underlying().(*types.Basic); ok && bt.Kind() == types.Uint8 {
				slices = append(slices, f)
			}
		} else if c13IsInt(f.Type()) {
			ints = append(ints, f)
		}
	}
	if len(slices) != 2 || len(ints) != 1 || st.NumFields() != 3 {
		c.Undecided("B.order.exhaust", relRac+".writeBuffer", shape, fmt.Sprintf("%d byte-slice fields, %d integer fields, %d fields", len(slices), len(ints), st.NumFields()))
		return
	}
	// methods
	var methods []*core.Func
	for _, f := range s.funcs {
		sig, ok := f.Obj.Type().(*types.Signature)
		if !ok || sig.Recv() == nil {
			continue
		}
		t := sig.Recv().Type()
		if p, ok := t.(*types.Pointer); ok {
			t = p.Elem()
		}
		if types.Identical(t, named) {
			methods = append(methods, f)
		}
	}
	b := &c13Buf{s: s, named: named, off: ints[0]}
	// which slice is borrowed: the one that is assigned a bare parameter
	adopt := map[*types.Var]int{}
	for _, f := range methods {
		fl := k.flow("B.order.exhaust", relRac, "writeBuffer", f.Decl.Name.Name)
		if fl == nil {
			continue
		}
		env := newC13Env(fl)
		for _, sf := range slices {
			for _, w := range env.writes[sf] {
				as, ok := w.(*ast.AssignStmt)
				if !ok || len(as.Lhs) != len(as.Rhs) {
					continue
				}
				for i, l := range as.Lhs {
					if env.scalarField(l) == sf {
						if po := fl.Obj(as.Rhs[i]); po != nil && po != env.recv && env.isParam(po) {
							adopt[sf]++
						}
					}
				}
			}
		}
	}
	switch {
	case adopt[slices[0]] > 0 && adopt[slices[1]] == 0:
		b.borrowed, b.owned = slices[0], slices[1]
	case adopt[slices[1]] > 0 && adopt[slices[0]] == 0:
		b.borrowed, b.owned = slices[1], slices[0]
	default:
		c.Undecided("B.order.exhaust", relRac+".writeBuffer", shape, fmt.Sprintf("parameter adoptions: %s %d, %s %d", slices[0].Name(), adopt[slices[0]], slices[1].Name(), adopt[slices[1]]))
		return
	}
	c.Info("B.fields", relRac+".writeBuffer", fmt.Sprintf("owned=%s offset=%s borrowed=%s; %d methods", b.owned.Name(), b.off.Name(), b.borrowed.Name(), len(methods)))

	nConsume, nAmount, nPeek, nLength, nRelease := 0, 0, 0, 0, 0
	var taking, returning, viewing []*types.Func // consumers with a count parameter / a count result; two-slice views
	for _, f := range methods {
		fl := k.flow("B.order.exhaust", relRac, "writeBuffer", f.Decl.Name.Name)
		if fl == nil {
			continue
		}
		env := newC13Env(fl)
		if env.hasLit || env.recv == nil {
			c.Undecided("B.order.exhaust", fl.F.Name(), "writeBuffer methods have a named receiver and no function literals", "shape not recognised")
			continue
		}
		a, m := b.methodOrder(fl, env)
		if sig := f.Obj.Type().(*types.Signature); a > 0 || len(env.writes[b.off]) > 0 {
			switch {
			case sig.Params().Len() == 1 && c13IsInt(sig.Params().At(0).Type()) && sig.Results().Len() == 0:
				taking = append(taking, f.Obj)
			case sig.Params().Len() == 0 && sig.Results().Len() == 1 && c13IsInt(sig.Results().At(0).Type()):
				returning = append(returning, f.Obj)
			}
		} else if sig.Results().Len() == 2 {
			viewing = append(viewing, f.Obj)
		}
		nConsume += a
		nAmount += m
		nPeek += b.methodPeek(fl, env)
		nLength += b.methodLength(fl, env)
		nRelease += b.methodRelease(fl, env)
	}
	c.Floor("B.order.exhaust", "statements that drop bytes from the front of the borrowed slice (advance, advancePastLeadingZeroes)", nConsume, 2)
	c.Floor("B.order.amount", "of which driven by a requested count that spans both parts (advance)", nAmount, 1)
	c.Floor("B.order.peek", "return statements of the two-slice view (peek: 3 today)", nPeek, 2)
	c.Floor("B.length", "return statements of the pending-length method (length)", nLength, 1)
	c.Floor("B.own.release", "statements that drop the borrowed slice (compact)", nRelease, 1)
	b.ownPrev()
	b.leadAccounting(taking, returning, viewing)
}

// scalarField: e is recv.<field>; returns the field.
func (env *c13Env) scalarField(e ast.Expr) *types.Var {
	if sel, ok := ast.Unparen(e).(*ast.SelectorExpr); ok && env.isRecv(sel.X) {
		if f, ok := env.info.Uses[sel.Sel].(*types.Var); ok && f.IsField() {
			return f
		}
	}
	return nil
}

func (b *c13Buf) forms() (P, LP, LC, D c13Aff) {
	P = affA(c13Atom{kind: 'v', obj: b.off})
	LP = affA(c13Atom{kind: 'l', obj: b.owned})
	LC = affA(c13Atom{kind: 'l', obj: b.borrowed})
	D = LP.plus(P, -1)
	return
}

func c13IsNil(info *types.Info, e ast.Expr) bool {
	id, ok := ast.Unparen(e).(*ast.Ident)
	return ok && id.Name == "nil" && info.Uses[id] == types.Universe.Lookup("nil")
}

// reachesExit: a path from after `from` to a return / the end of the function that avoids `via`.
func (env *c13Env) reachesExit(from ast.Node, via func(ast.Node) bool) bool {
	q := core.Query{Exit: func(n ast.Node) bool { _, ok := n.(*ast.ReturnStmt); return ok }, FuncEnd: true,
		Start: func(n ast.Node) bool { return n == from }}
	if via != nil {
		q.Events = []core.Event{{Node: via}}
	}
	esc, _ := env.fl.Escapes(q)
	return len(esc) > 0
}

// methodOrder: B.order.exhaust and B.order.amount in one method. Returns the
// number of consume statements and of count-driven ones.
func (b *c13Buf) methodOrder(fl *core.Flow, env *c13Env) (nConsume, nAmount int) {
	c, s := b.s.c, b.s
	_, LP, _, D := b.forms()
	type store struct {
		stmt ast.Node
		rhs  ast.Expr
	}
	var consume []store
	for _, w := range env.writes[b.borrowed] {
		as, ok := w.(*ast.AssignStmt)
		if !ok || len(as.Lhs) != len(as.Rhs) || as.Tok != token.ASSIGN {
			c.Undecided("B.order.exhaust", fl.F.Name(), "stores to the borrowed slice are plain assignments", s.g.Pos(w.Pos()))
			continue
		}
		for i, l := range as.Lhs {
			if env.scalarField(l) != b.borrowed {
				continue
			}
			r := ast.Unparen(as.Rhs[i])
			switch x := r.(type) {
			case *ast.Ident:
				if c13IsNil(env.info, x) {
					continue // release: B.own.release
				}
				if po := fl.Obj(x); po != nil && env.isParam(po) && po != env.recv {
					continue // adoption of the caller's slice (S4.* covers the protocol)
				}
			case *ast.SliceExpr:
				if env.scalarField(x.X) == b.borrowed && !x.Slice3 {
					if x.Low == nil {
						if x.High != nil {
							if k, isk := core.ConstInt64(env.info, x.High); isk && k == 0 {
								continue // emptied: treated like release
							}
						}
					} else if x.High == nil {
						if k, isk := core.ConstInt64(env.info, x.Low); isk && k == 0 {
							continue // no-op
						}
						consume = append(consume, store{w, r})
						continue
					}
				}
			}
			c.Undecided("B.order.exhaust", fl.F.Name(), "a store to the borrowed slice is an adoption of a parameter, a re-slice from the front `x = x[k:]`, or nil", fmt.Sprintf("%s: `%s`", s.g.Pos(w.Pos()), core.Src(s.g.Fset, w)))
		}
	}
	if len(consume) == 0 {
		return 0, 0
	}
	estEdge := func(cond ast.Expr, ci *core.CondInfo, taken bool) bool {
		return env.edgeImplies(cond, taken, cond, func(f c13Aff, op token.Token) bool {
			r, ok := c13BoundsOn(f, op, D)
			return ok && r.atMost(0)
		})
	}
	estNode := func(n ast.Node) bool {
		as, ok := n.(*ast.AssignStmt)
		if !ok || as.Tok != token.ASSIGN || len(as.Lhs) != len(as.Rhs) {
			return false
		}
		for i, l := range as.Lhs {
			if env.scalarField(l) == b.off {
				if v, ok := env.aff(as.Rhs[i], n); ok {
					if k, isk := LP.plus(v, -1).isConst(); isk && k <= 0 {
						return true
					}
				}
			}
		}
		return false
	}
	var kills []ast.Node
	for _, kn := range env.killsOf(map[types.Object]bool{types.Object(b.off): true, types.Object(b.owned): true}) {
		if !estNode(kn) {
			kills = append(kills, kn)
		}
	}
	claim := fmt.Sprintf("the pending bytes are %s[%s:] followed by %s: bytes are dropped from the front of %s only when %s[%s:] is empty at that point (an edge implying %s >= len(%s), re-established after every store to either) or is made empty before the method returns (`%s = len(%s)`); otherwise bytes that come later in the stream are consumed before earlier ones and the chunk boundaries no longer describe the data (Close() == nil, Reader returns wrong bytes)",
		b.owned.Name(), b.off.Name(), b.borrowed.Name(), b.borrowed.Name(), b.owned.Name(), b.off.Name(), b.off.Name(), b.owned.Name(), b.off.Name(), b.owned.Name())
	for i, cs := range consume {
		anchor := fmt.Sprintf("%s[%s = %s[k:]]", fl.F.Name(), b.borrowed.Name(), b.borrowed.Name())
		if len(consume) > 1 {
			anchor = fmt.Sprintf("%s[%s = %s[k:]#%d]", fl.F.Name(), b.borrowed.Name(), b.borrowed.Name(), i+1)
		}
		nConsume++
		at := cs.stmt
		esc, sites := c13FromEntryAndEach(fl, kills, core.Query{Exit: func(n ast.Node) bool { return n == at },
			Events: []core.Event{{Edge: estEdge}, {Node: estNode}}})
		if len(esc) == 0 {
			c.Pass("B.order.exhaust", anchor, claim, sites, "before: every path (from entry and from each store to the offset / the owned slice) crosses an edge or assignment that exhausts the owned part")
		} else {
			post := !env.reachesExit(at, estNode)
			for _, kn := range kills {
				if post && (kn == at || env.reaches(at, func(n ast.Node) bool { return n == kn }, nil)) && env.reachesExit(kn, estNode) {
					post = false
				}
			}
			if post {
				c.Pass("B.order.exhaust", anchor, claim, sites, "after: every path from the statement to a return passes the assignment that exhausts the owned part, with no later store to it")
			} else {
				c.Fail("B.order.exhaust", anchor, claim, sites, fmt.Sprintf("in %s: `%s` (%s) is reached with the owned part possibly non-empty, and it is not emptied afterwards either:\n%s",
					fl.F.Name(), core.Src(s.g.Fset, at), s.g.Pos(at.Pos()), c13EscText(esc)))
			}
		}

		// ---- B.order.amount ----
		// Values are taken at definition time: `available := len(prev)-p` computed on
		// entry is the amount wanted even if the offset has moved by the time it is used.
		lo, loPts, ok := env.affDefTime(cs.rhs.(*ast.SliceExpr).Low, at)
		if !ok {
			c.Undecided("B.order.amount", anchor, "the number of bytes dropped is a linear form", s.g.Pos(at.Pos()))
			continue
		}
		var params []types.Object
		for x := range lo.t {
			if x.kind == 'v' && x.obj != env.recv && env.isParam(x.obj) {
				params = append(params, x.obj)
			}
		}
		if len(params) == 0 {
			continue // counted inside the borrowed slice itself (a scan)
		}
		nAmount++
		claimA := fmt.Sprintf("a requested count that is larger than what %s[%s:] holds takes the rest — count minus len(%s)-%s, read before the offset moves — from %s; dropping the full count there skips bytes that were never processed", b.owned.Name(), b.off.Name(), b.owned.Name(), b.off.Name(), b.borrowed.Name())
		if len(params) != 1 {
			c.Undecided("B.order.amount", anchor, claimA, "more than one parameter in the count")
			continue
		}
		prm := params[0]
		pa := affA(c13Atom{kind: 'v', obj: prm})
		allKills := env.killsOf(map[types.Object]bool{types.Object(b.off): true, types.Object(b.owned): true})
		// the offset / owned slice have their entry values at every one of the points
		entryState := func(points []ast.Node) bool {
			for _, pt := range points {
				for _, kn := range allKills {
					if env.reaches(kn, func(n ast.Node) bool { return n == pt }, nil) {
						return false
					}
				}
			}
			return true
		}
		switch {
		case lo.equal(pa.plus(D, -1)) && len(env.writes[prm]) == 0:
			c.Check(entryState(loPts), "B.order.amount", anchor, claimA, 1, "the offset or the owned slice is stored to before the pending amount is read")
		case lo.equal(pa):
			debit := func(n ast.Node) bool {
				as, ok := n.(*ast.AssignStmt)
				if !ok || len(as.Lhs) != 1 || len(as.Rhs) != 1 || fl.Obj(as.Lhs[0]) != prm {
					return false
				}
				v, pts, ok := env.affDefTime(as.Rhs[0], n)
				if !ok || !entryState(pts) {
					return false
				}
				switch as.Tok {
				case token.SUB_ASSIGN:
					return v.equal(D)
				case token.ASSIGN:
					// the right-hand side reads the parameter before the store: count - D
					return v.equal(pa.plus(D, -1))
				}
				return false
			}
			others := 0
			for _, w := range env.writes[prm] {
				if !debit(w) {
					others++
				}
			}
			esc, sites := fl.Escapes(core.Query{Exit: func(n ast.Node) bool { return n == at }, Events: []core.Event{{Node: debit}}})
			okA := len(esc) == 0 && others == 0
			c.Check(okA, "B.order.amount", anchor, claimA, sites+1, fmt.Sprintf("in %s: `%s` (%s) drops the full count `%s`: %d other writes to it; paths without `%s -= len(%s)-%s` (pending amount read on entry):\n%s",
				fl.F.Name(), core.Src(s.g.Fset, at), s.g.Pos(at.Pos()), prm.Name(), others, prm.Name(), b.owned.Name(), b.off.Name(), c13EscText(esc)))
		default:
			c.Undecided("B.order.amount", anchor, claimA, fmt.Sprintf("%s: the count `%s` is neither the parameter nor parameter - (len(%s)-%s)", s.g.Pos(at.Pos()), lo.String(), b.owned.Name(), b.off.Name()))
		}
	}
	return
}

func (b *c13Buf) mentions(env *c13Env, e ast.Expr, f *types.Var) bool {
	found := false
	ast.Inspect(e, func(n ast.Node) bool {
		if id, ok := n.(*ast.Ident); ok && env.info.Uses[id] == types.Object(f) {
			found = true
		}
		return !found
	})
	return found
}

// view: e denotes field[lo:hi] of the receiver (hi nil: to the end), through
// nested slice expressions and plain locals.
func (b *c13Buf) view(env *c13Env, e ast.Expr, at ast.Node, field *types.Var, depth int) (lo c13Aff, hi *c13Aff, ok bool) {
	if depth > 6 {
		return c13Aff{}, nil, false
	}
	switch x := ast.Unparen(e).(type) {
	case *ast.Ident:
		if v, isVar := env.fl.Obj(x).(*types.Var); isVar {
			if d, isPlain := env.plain[v]; isPlain && env.fresh(v, at) {
				return b.view(env, d.rhs, d.stmt, field, depth+1)
			}
		}
	case *ast.SelectorExpr:
		if env.scalarField(x) == field {
			return affK(0), nil, true
		}
	case *ast.SliceExpr:
		if x.Slice3 {
			return c13Aff{}, nil, false
		}
		ilo, ihi, ok := b.view(env, x.X, at, field, depth+1)
		if !ok {
			return c13Aff{}, nil, false
		}
		lo, hi = ilo, ihi
		if x.Low != nil {
			l, ok := env.aff(x.Low, at)
			if !ok {
				return c13Aff{}, nil, false
			}
			lo = ilo.plus(l, 1)
		}
		if x.High != nil {
			h, ok := env.aff(x.High, at)
			if !ok {
				return c13Aff{}, nil, false
			}
			hh := ilo.plus(h, 1)
			hi = &hh
		}
		return lo, hi, true
	}
	return c13Aff{}, nil, false
}

// methodPeek: B.order.peek in methods returning two byte slices.
func (b *c13Buf) methodPeek(fl *core.Flow, env *c13Env) int {
	c, s := b.s.c, b.s
	sig := fl.F.Obj.Type().(*types.Signature)
	if sig.Results().Len() != 2 {
		return 0
	}
	for i := 0; i < 2; i++ {
		if !types.Identical(sig.Results().At(i).Type(), b.owned.Type()) {
			return 0
		}
	}
	P, LP, _, _ := b.forms()
	claim := fmt.Sprintf("the two-slice view handed to the compressor is (%s[%s:…], prefix of %s), in stream order, and has a second part only when the first is all of %s[%s:]", b.owned.Name(), b.off.Name(), b.borrowed.Name(), b.owned.Name(), b.off.Name())
	n := 0
	for _, node := range env.nodes {
		ret, ok := node.(*ast.ReturnStmt)
		if !ok {
			continue
		}
		n++
		anchor := fmt.Sprintf("%s[return #%d]", fl.F.Name(), n)
		if len(ret.Results) != 2 {
			c.Undecided("B.order.peek", anchor, claim, "not a return of two expressions")
			continue
		}
		r0, r1 := ast.Unparen(ret.Results[0]), ast.Unparen(ret.Results[1])
		// first part: a view of the owned slice that starts at the offset
		first, open := false, false
		if c13IsNil(env.info, r0) {
			first, open = true, false
		} else if lo, hi, ok := b.view(env, r0, node, b.owned, 0); ok && lo.equal(P) {
			first = true
			open = hi == nil || hi.equal(LP)
		}
		// second part: nil, or a view of the borrowed slice that starts at its front
		second := ""
		if c13IsNil(env.info, r1) {
			second = "none"
		} else if lo, hi, ok := b.view(env, r1, node, b.borrowed, 0); ok {
			if k, isk := lo.isConst(); isk && k == 0 {
				second = "prefix"
				if hi == nil {
					second = "all"
				} else if hi.equal(lo) {
					second = "none" // an empty slice
				}
			}
		}
		var bad []string
		if !first {
			if b.mentions(env, r0, b.borrowed) {
				bad = append(bad, fmt.Sprintf("the first result `%s` is taken from %s", core.Src(s.g.Fset, r0), b.borrowed.Name()))
			} else {
				bad = append(bad, fmt.Sprintf("the first result `%s` is not %s[%s:…]", core.Src(s.g.Fset, r0), b.owned.Name(), b.off.Name()))
			}
		}
		if second == "" {
			if b.mentions(env, r1, b.owned) {
				bad = append(bad, fmt.Sprintf("the second result `%s` is taken from %s", core.Src(s.g.Fset, r1), b.owned.Name()))
			} else {
				bad = append(bad, fmt.Sprintf("the second result `%s` is not nil or a prefix of %s", core.Src(s.g.Fset, r1), b.borrowed.Name()))
			}
		}
		if first && second != "" && second != "none" && !open {
			bad = append(bad, fmt.Sprintf("bytes of %s are handed out while the first result `%s` stops before the end of %s", b.borrowed.Name(), core.Src(s.g.Fset, r0), b.owned.Name()))
		}
		c.Check(len(bad) == 0, "B.order.peek", anchor, claim, 1, fmt.Sprintf("%s: %s", s.g.Pos(ret.Pos()), strings.Join(bad, "; ")))
	}
	return n
}

// methodLength: B.length in parameterless methods returning one integer.
func (b *c13Buf) methodLength(fl *core.Flow, env *c13Env) int {
	c, s := b.s.c, b.s
	sig := fl.F.Obj.Type().(*types.Signature)
	if sig.Params().Len() != 0 || sig.Results().Len() != 1 || !c13IsInt(sig.Results().At(0).Type()) {
		return 0
	}
	// only methods that do not write the buffer (a pure query)
	for _, f := range []*types.Var{b.owned, b.borrowed, b.off} {
		if len(env.writes[f]) != 0 {
			return 0
		}
	}
	_, _, LC, D := b.forms()
	want := D.plus(LC, 1)
	claim := fmt.Sprintf("the number of pending bytes is len(%s) - %s + len(%s): Writer.Write's size limit, and writeCChunks' decisions to stop (nothing pending) or to stop growing a chunk, read it", b.owned.Name(), b.off.Name(), b.borrowed.Name())
	n := 0
	for _, node := range env.nodes {
		ret, ok := node.(*ast.ReturnStmt)
		if !ok {
			continue
		}
		n++
		anchor := fl.F.Name()
		if len(ret.Results) != 1 {
			c.Undecided("B.length", anchor, claim, "naked return")
			continue
		}
		v, ok := env.aff(ret.Results[0], node)
		if !ok {
			c.Undecided("B.length", anchor, claim, fmt.Sprintf("%s: `%s` is not a linear form of the lengths", s.g.Pos(ret.Pos()), core.Src(s.g.Fset, ret.Results[0])))
			continue
		}
		c.Check(v.equal(want), "B.length", anchor, claim, 1, fmt.Sprintf("%s: returns %s, want %s", s.g.Pos(ret.Pos()), v.String(), want.String()))
	}
	return n
}

func (b *c13Buf) rootedOwned(info *types.Info, e ast.Expr) bool {
	for {
		e = ast.Unparen(e)
		switch x := e.(type) {
		case *ast.SliceExpr:
			e = x.X
			continue
		case *ast.SelectorExpr:
			return info.Uses[x.Sel] == types.Object(b.owned)
		}
		return false
	}
}

// isCopyOnto: rhs is append(<owned-rooted>, …) — the result is owned's own array or a fresh one.
func (b *c13Buf) isAppendOnto(info *types.Info, e ast.Expr) (*ast.CallExpr, bool) {
	call, ok := ast.Unparen(e).(*ast.CallExpr)
	if !ok || len(call.Args) < 1 {
		return nil, false
	}
	id, ok := ast.Unparen(call.Fun).(*ast.Ident)
	if !ok {
		return nil, false
	}
	if bi, isB := info.Uses[id].(*types.Builtin); !isB || bi.Name() != "append" {
		return nil, false
	}
	return call, b.rootedOwned(info, call.Args[0])
}

// methodRelease: B.own.release.
func (b *c13Buf) methodRelease(fl *core.Flow, env *c13Env) int {
	c, s := b.s.c, b.s
	var rel []ast.Node
	for _, w := range env.writes[b.borrowed] {
		as, ok := w.(*ast.AssignStmt)
		if !ok || len(as.Lhs) != len(as.Rhs) {
			continue
		}
		for i, l := range as.Lhs {
			if env.scalarField(l) != b.borrowed {
				continue
			}
			r := ast.Unparen(as.Rhs[i])
			if c13IsNil(env.info, r) {
				rel = append(rel, w)
			} else if se, ok := r.(*ast.SliceExpr); ok && se.Low == nil && se.High != nil {
				if k, isk := core.ConstInt64(env.info, se.High); isk && k == 0 {
					rel = append(rel, w)
				}
			}
		}
	}
	if len(rel) == 0 {
		return 0
	}
	copied := func(n ast.Node) bool {
		as, ok := n.(*ast.AssignStmt)
		if !ok || len(as.Lhs) != len(as.Rhs) {
			return false
		}
		for i, l := range as.Lhs {
			if env.scalarField(l) != b.owned {
				continue
			}
			call, ok := b.isAppendOnto(env.info, as.Rhs[i])
			if ok && call.Ellipsis.IsValid() && len(call.Args) == 2 && env.scalarField(call.Args[1]) == b.borrowed {
				return true
			}
		}
		return false
	}
	isRel := func(n ast.Node) bool {
		for _, r := range rel {
			if r == n {
				return true
			}
		}
		return false
	}
	claim := fmt.Sprintf("%s — the caller's memory — is let go only after its bytes have been appended (copied) onto %s: otherwise the unprocessed tail of a Write call is lost", b.borrowed.Name(), b.owned.Name())
	esc, sites := fl.Escapes(core.Query{Exit: isRel, Events: []core.Event{{Node: copied}}})
	c.Check(len(esc) == 0, "B.own.release", fl.F.Name(), claim, sites, fmt.Sprintf("in %s (%s):\n%s", fl.F.Name(), s.g.Pos(fl.F.Decl.Pos()), c13EscText(esc)))
	return len(rel)
}

// ownPrev: B.own.prev over every function of the writer files.
func (b *c13Buf) ownPrev() {
	c, s := b.s.c, b.s
	claim := fmt.Sprintf("the array behind %s belongs to the writeBuffer (compact() copies into it and keeps it across Write calls), so %s is only ever a re-slice of itself, an append onto itself, nil or a fresh allocation — never the caller's slice (%s, a parameter): Write must not retain or overwrite p after it returns", b.owned.Name(), b.owned.Name(), b.borrowed.Name())
	n := 0
	var bad, unk []string
	for _, f := range s.funcs {
		info := f.Info()
		params := map[types.Object]bool{}
		if f.Decl.Type.Params != nil {
			for _, fld := range f.Decl.Type.Params.List {
				for _, id := range fld.Names {
					params[info.Defs[id]] = true
				}
			}
		}
		ast.Inspect(f.Decl.Body, func(m ast.Node) bool {
			as, ok := m.(*ast.AssignStmt)
			if !ok {
				return true
			}
			for i, l := range as.Lhs {
				sel, ok := ast.Unparen(l).(*ast.SelectorExpr)
				if !ok || info.Uses[sel.Sel] != types.Object(b.owned) {
					continue
				}
				n++
				if len(as.Lhs) != len(as.Rhs) || (as.Tok != token.ASSIGN && as.Tok != token.DEFINE) {
					unk = append(unk, fmt.Sprintf("%s: `%s`", s.g.Pos(as.Pos()), core.Src(s.g.Fset, as)))
					continue
				}
				r := ast.Unparen(as.Rhs[i])
				if c13IsNil(info, r) || b.rootedOwned(info, r) {
					continue
				}
				if _, ok := b.isAppendOnto(info, r); ok {
					continue
				}
				if call, ok := r.(*ast.CallExpr); ok {
					if id, ok := ast.Unparen(call.Fun).(*ast.Ident); ok {
						if bi, isB := info.Uses[id].(*types.Builtin); isB && bi.Name() == "make" {
							continue
						}
					}
				}
				foreign := false
				ast.Inspect(r, func(x ast.Node) bool {
					if id, ok := x.(*ast.Ident); ok {
						o := info.Uses[id]
						if o == types.Object(b.borrowed) || params[o] {
							foreign = true
						}
					}
					return true
				})
				txt := fmt.Sprintf("%s: `%s` in %s", s.g.Pos(as.Pos()), core.Src(s.g.Fset, as), f.Name())
				if foreign {
					bad = append(bad, txt)
				} else {
					unk = append(unk, txt)
				}
			}
			return true
		})
	}
	sort.Strings(bad)
	sort.Strings(unk)
	anchor := relRac + ".writeBuffer." + b.owned.Name()
	switch {
	case len(bad) > 0:
		c.Fail("B.own.prev", anchor, claim, n, "stores that make it alias foreign memory: "+strings.Join(bad, "; "))
	case len(unk) > 0:
		c.Undecided("B.own.prev", anchor, claim, "stores of an unrecognised form: "+strings.Join(unk, "; "))
	default:
		c.Pass("B.own.prev", anchor, claim, n, fmt.Sprintf("%d stores, all of them re-slice / append onto itself / nil / make", n))
	}
	c.Floor("B.own.prev", "stores to the owned slice in the writer files (compact: 2 today)", n, 1)
}

// leadAccounting: rule family Z.lead — the zeroes that advancePastLeadingZeroes
// skips after a chunk belong to that chunk's DRange.
//
//	Z.lead.count  the count returned by a consuming method of the pending buffer
//	              is added to a variable that is the dRangeSize argument of the
//	              AddChunk call that follows on every path
//	Z.lead.order  the skipping call is made only after the chunk's own bytes
//	              have been consumed (a count-taking consumer call since the last view)
func (b *c13Buf) leadAccounting(taking, returning, viewing []*types.Func) {
	c, s, k := b.s.c, b.s, b.s.k
	addChunk := k.fn("Z.lead.count", relRac, "ChunkWriter", "AddChunk")
	if addChunk == nil {
		return
	}
	in := func(set []*types.Func, info *types.Info) func(*ast.CallExpr) bool {
		return func(call *ast.CallExpr) bool {
			cal := core.Callee(info, call)
			for _, f := range set {
				if cal == f {
					return true
				}
			}
			return false
		}
	}
	claimC := "bytes skipped at the front of the pending buffer after a chunk (a run of zeroes, which a RAC reader reproduces for any DRange longer than the decompressed chunk) are added to that chunk's dRangeSize before AddChunk: a dropped count makes every later chunk start too early in DSpace and the decompressed file too short, with Close() == nil"
	claimO := "leading zeroes are skipped only after the chunk's own bytes have been consumed (advance(n) since the last peek): skipping first would drop zeroes that are part of the compressed chunk and then drop n more bytes that were never compressed"
	nCount, nOrder := 0, 0
	for _, f := range s.funcs {
		info := f.Info()
		isRet, isTake, isView := in(returning, info), in(taking, info), in(viewing, info)
		if core.CountCalls(f.Decl.Body, isRet) == 0 {
			continue
		}
		fl := k.flow("Z.lead.count", relRac, c13RecvTypeName(f.Decl), f.Decl.Name.Name)
		if fl == nil {
			continue
		}
		env := newC13Env(fl)
		isAdd := func(v types.Object) func(ast.Node) bool {
			return func(n ast.Node) bool {
				return core.Guaranteed(n, func(call *ast.CallExpr) bool {
					return core.IsCallTo(info, call, addChunk) && len(call.Args) >= 1 && fl.Obj(env.unconv(call.Args[0])) == v
				})
			}
		}
		// accumulate: `V += X` / `V = V + X` / `V = X + V` where X satisfies isX
		accumulate := func(n ast.Node, isX func(ast.Expr) bool) types.Object {
			as, ok := n.(*ast.AssignStmt)
			if !ok || len(as.Lhs) != 1 || len(as.Rhs) != 1 {
				return nil
			}
			v, _ := fl.Obj(as.Lhs[0]).(*types.Var)
			if v == nil || v.IsField() {
				return nil
			}
			r := env.unconv(as.Rhs[0])
			switch as.Tok {
			case token.ADD_ASSIGN:
				if isX(r) {
					return v
				}
			case token.ASSIGN:
				if be, ok := r.(*ast.BinaryExpr); ok && be.Op == token.ADD {
					x, y := env.unconv(be.X), env.unconv(be.Y)
					if (fl.Obj(x) == types.Object(v) && isX(y)) || (fl.Obj(y) == types.Object(v) && isX(x)) {
						return v
					}
				}
			}
			return nil
		}
		isCallExpr := func(e ast.Expr) bool {
			call, ok := ast.Unparen(e).(*ast.CallExpr)
			return ok && isRet(call)
		}
		retStmt := func(n ast.Node) bool { _, ok := n.(*ast.ReturnStmt); return ok }
		// from the accumulating statement to AddChunk(V, …)
		declared := func(anchor string, from ast.Node, v types.Object) {
			kill := map[ast.Node]bool{}
			for _, w := range env.writes[v] {
				if w != from {
					kill[w] = true
				}
			}
			esc, sites := fl.Escapes(core.Query{Start: func(n ast.Node) bool { return n == from },
				Exit: func(n ast.Node) bool { return retStmt(n) || kill[n] }, FuncEnd: true,
				Events: []core.Event{{Node: isAdd(v)}}})
			c.Check(len(esc) == 0, "Z.lead.count", anchor, claimC, sites+1, fmt.Sprintf("in %s: after `%s` (%s) a return or another store to `%s` is reached before AddChunk(%s, …):\n%s",
				fl.F.Name(), core.Src(s.g.Fset, from), s.g.Pos(from.Pos()), v.Name(), v.Name(), c13EscText(esc)))
		}
		site := 0
		for _, n := range env.nodes {
			if !core.AnyCall(n, isRet) {
				continue
			}
			site++
			anchor := fmt.Sprintf("%s[skip #%d]", fl.F.Name(), site)
			nCount++
			if v := accumulate(n, isCallExpr); v != nil {
				declared(anchor, n, v)
			} else if as, ok := n.(*ast.AssignStmt); ok && len(as.Lhs) == 1 && len(as.Rhs) == 1 && isCallExpr(env.unconv(as.Rhs[0])) && env.plain[fl.Obj(as.Lhs[0])].stmt == n {
				// z := skip(); … V += z
				z := fl.Obj(as.Lhs[0])
				isZ := func(e ast.Expr) bool { return fl.Obj(e) == z }
				var accs []ast.Node
				for _, m := range env.nodes {
					if accumulate(m, isZ) != nil {
						accs = append(accs, m)
					}
				}
				esc, sites := fl.Escapes(core.Query{Start: func(m ast.Node) bool { return m == n }, Exit: retStmt, FuncEnd: true,
					Events: []core.Event{{Node: func(m ast.Node) bool { return accumulate(m, isZ) != nil }}}})
				if len(esc) > 0 || len(accs) == 0 {
					c.Fail("Z.lead.count", anchor, claimC, sites+1, fmt.Sprintf("in %s: the count `%s` (%s) is not added to a dRangeSize on every path:\n%s", fl.F.Name(), z.Name(), s.g.Pos(n.Pos()), c13EscText(esc)))
				} else {
					for _, m := range accs {
						declared(anchor, m, accumulate(m, isZ))
					}
				}
			} else {
				c.Fail("Z.lead.count", anchor, claimC, 1, fmt.Sprintf("in %s: the count returned by `%s` (%s) is not added to the chunk's dRangeSize (accepted: `d += skip()`, `d = d + skip()`, `z := skip()` … `d += z`)", fl.F.Name(), core.Src(s.g.Fset, n), s.g.Pos(n.Pos())))
			}
			// order
			nOrder++
			at := n
			q := core.Query{Exit: func(m ast.Node) bool { return m == at }, Events: []core.Event{{Node: func(m ast.Node) bool { return m != at && core.Guaranteed(m, isTake) }}}}
			var views []ast.Node
			for _, m := range env.nodes {
				if core.AnyCall(m, isView) {
					views = append(views, m)
				}
			}
			esc, sites := c13FromEntryAndEach(fl, views, q)
			c.Check(len(esc) == 0, "Z.lead.order", anchor, claimO, sites+1, fmt.Sprintf("in %s (%s):\n%s", fl.F.Name(), s.g.Pos(n.Pos()), c13EscText(esc)))
		}
	}
	c.Floor("Z.lead.count", "calls of the zero-skipping consumer in the writer files (tryCChunk ×2)", nCount, 2)
	c.Floor("Z.lead.order", "the same calls, ordered after advance", nOrder, 2)
}
