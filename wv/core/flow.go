package core

import (
	"fmt"
	"go/ast"
	"go/token"
	"go/types"
	"strings"

	"golang.org/x/tools/go/cfg"
)

// Flow is the go/cfg view of one function, with the engine E1 queries on it.
type Flow struct {
	F      *Func
	G      *cfg.CFG
	conds  map[ast.Node]*CondInfo // last node of a 2-successor block → what it is
	defmap map[types.Object][]ast.Expr
	marks  map[ast.Node]*ast.BranchStmt
}

// CondInfo classifies a branching node.
type CondInfo struct {
	Kind string   // "if", "for", "switch" (tagless case expr: boolean), "tagswitch" (value compared with Tag), "range"
	Tag  ast.Expr // for tagswitch
	Stmt ast.Stmt
}

func NewFlow(f *Func) *Flow {
	fl := &Flow{F: f, conds: map[ast.Node]*CondInfo{}}
	info := f.Info()
	mayReturn := func(call *ast.CallExpr) bool {
		if id, ok := call.Fun.(*ast.Ident); ok {
			if b, ok := info.Uses[id].(*types.Builtin); ok && b.Name() == "panic" {
				return false
			}
		}
		return true
	}
	fl.markBranches()
	fl.G = cfg.New(f.Decl.Body, mayReturn)
	ast.Inspect(f.Decl.Body, func(n ast.Node) bool {
		switch s := n.(type) {
		case *ast.FuncLit:
			return false
		case *ast.IfStmt:
			fl.conds[s.Cond] = &CondInfo{Kind: "if", Stmt: s}
		case *ast.ForStmt:
			if s.Cond != nil {
				fl.conds[s.Cond] = &CondInfo{Kind: "for", Stmt: s}
			}
		case *ast.SwitchStmt:
			for _, cl := range s.Body.List {
				for _, e := range cl.(*ast.CaseClause).List {
					if s.Tag == nil {
						fl.conds[e] = &CondInfo{Kind: "switch", Stmt: s}
					} else {
						fl.conds[e] = &CondInfo{Kind: "tagswitch", Tag: s.Tag, Stmt: s}
					}
				}
			}
		}
		return true
	})
	return fl
}

// Region is a half-open source range inside the function. The zero Region
// means the whole body.
type Region struct{ Lo, Hi token.Pos }

func (r Region) Contains(p token.Pos) bool {
	if r.Lo == 0 && r.Hi == 0 {
		return true
	}
	return p >= r.Lo && p < r.Hi
}

func RegionOf(n ast.Node) Region { return Region{n.Pos(), n.End()} }

// CaseRegion returns the body of the case clause whose case list contains a
// constant equal (by value) to the named package-level constant, in the first
// switch (in source order) of the function that has such a clause and whose
// tag satisfies tagOK (nil: any).
func (fl *Flow) CaseRegion(constObj types.Object, tagOK func(ast.Expr) bool) (Region, *ast.CaseClause) {
	info := fl.F.Info()
	var found *ast.CaseClause
	ast.Inspect(fl.F.Decl.Body, func(n ast.Node) bool {
		if found != nil {
			return false
		}
		sw, ok := n.(*ast.SwitchStmt)
		if !ok || sw.Tag == nil {
			return true
		}
		if tagOK != nil && !tagOK(sw.Tag) {
			return true
		}
		for _, cl := range sw.Body.List {
			cc := cl.(*ast.CaseClause)
			for _, e := range cc.List {
				if SameConst(info, e, constObj) {
					found = cc
					return false
				}
			}
		}
		return true
	})
	if found == nil {
		return Region{}, nil
	}
	return Region{found.Colon, found.End()}, found
}

// SameConst: expression e denotes the given constant object, or has the same
// constant value and type.
func SameConst(info *types.Info, e ast.Expr, obj types.Object) bool {
	e = ast.Unparen(e)
	switch x := e.(type) {
	case *ast.Ident:
		if info.Uses[x] == obj {
			return true
		}
	case *ast.SelectorExpr:
		if info.Uses[x.Sel] == obj {
			return true
		}
	}
	c, ok := obj.(*types.Const)
	if !ok {
		return false
	}
	tv, ok := info.Types[e]
	if !ok || tv.Value == nil {
		return false
	}
	return types.Identical(tv.Type, c.Type()) && tv.Value.ExactString() == c.Val().ExactString()
}

// Event is something that discharges an obligation when it happens on a path.
type Event struct {
	// Node: executing this CFG node guarantees the event. (The engine calls it
	// with statements and branch conditions; use Flow.Guaranteed to look
	// inside for calls that are certainly evaluated.)
	Node func(n ast.Node) bool
	// Edge: leaving cond along its true (taken) or false branch guarantees
	// the event — used for guards: "the path continued past `if bad {return err}`".
	Edge func(cond ast.Expr, ci *CondInfo, taken bool) bool
}

// Query asks: starting inside Region, is there a path that reaches an exit
// without any event having happened?
type Query struct {
	Region Region
	Events []Event
	// Exit reports whether reaching node n (a statement in the region) is an
	// exit of interest. Return statements are offered here.
	Exit func(n ast.Node) bool
	// FallOut: leaving the region through its end (or a jump out) is an exit.
	FallOut bool
	// FuncEnd: reaching the end of the function body is an exit (implied by
	// FallOut for the whole-body region).
	FuncEnd bool
	// Exempt edges are not followed (documented exemptions).
	Exempt func(cond ast.Expr, ci *CondInfo, taken bool) bool
	// Start, if non-nil, restricts where tracking begins: tracking starts
	// after executing a node for which Start returns true (instead of at
	// region entry).
	Start func(n ast.Node) bool
}

// Escape is one offending path.
type Escape struct {
	Exit  string   // file:line and text of the exit
	Trail []string // branch decisions from entry to the exit
}

func (e Escape) String() string {
	return fmt.Sprintf("escaping exit %s via [%s]", e.Exit, strings.Join(e.Trail, " ; "))
}

type vstate struct {
	b      *cfg.Block
	i      int
	inside bool
}

// Escapes runs the query and returns one shortest escaping path per distinct
// exit (empty: the obligation holds on all paths). sites is the number of
// exits examined plus CFG nodes visited while tracking.
func (fl *Flow) Escapes(q Query) (esc []Escape, sites int) {
	type item struct {
		s      vstate
		parent int
		note   string
	}
	var items []item
	seen := map[vstate]bool{}
	push := func(s vstate, parent int, note string) {
		if seen[s] {
			return
		}
		seen[s] = true
		items = append(items, item{s, parent, note})
	}
	if len(fl.G.Blocks) == 0 {
		return nil, 0
	}
	whole := q.Region.Lo == 0 && q.Region.Hi == 0
	startInside := whole && q.Start == nil
	push(vstate{fl.G.Blocks[0], 0, startInside}, -1, "")
	reported := map[string]bool{}
	trail := func(k int) []string {
		var t []string
		for k >= 0 {
			if items[k].note != "" {
				t = append(t, items[k].note)
			}
			k = items[k].parent
		}
		for i, j := 0, len(t)-1; i < j; i, j = i+1, j-1 {
			t[i], t[j] = t[j], t[i]
		}
		if len(t) > 12 {
			t = append(t[:4], append([]string{"…"}, t[len(t)-7:]...)...)
		}
		return t
	}
	report := func(k int, what string) {
		if reported[what] {
			return
		}
		reported[what] = true
		esc = append(esc, Escape{Exit: what, Trail: trail(k)})
	}
	for k := 0; k < len(items); k++ {
		s := items[k].s
		b := s.b
		if s.i < len(b.Nodes) {
			n := b.Nodes[s.i]
			inside := s.inside
			inRegion := q.Region.Contains(n.Pos())
			if !inside && inRegion && q.Start == nil {
				inside = true
			}
			if inside && !inRegion {
				// Left the region.
				if q.FallOut {
					sites++
					report(k, fmt.Sprintf("%s (leaves the region)", fl.F.Prog.Pos(n.Pos())))
				}
				inside = false
			}
			if inside {
				sites++
				hit := false
				for _, ev := range q.Events {
					if ev.Node != nil && ev.Node(n) {
						hit = true
						break
					}
				}
				if hit {
					continue // path discharged
				}
				if q.Exit != nil && q.Exit(n) {
					report(k, fmt.Sprintf("%s `%s`", fl.F.Prog.Pos(n.Pos()), Src(fl.F.Prog.Fset, n)))
					continue
				}
			}
			if !inside && q.Start != nil && inRegion && q.Start(n) {
				inside = true
			}
			isLast := s.i == len(b.Nodes)-1
			if isLast && len(b.Succs) == 2 {
				if cond, ok := n.(ast.Expr); ok {
					ci := fl.conds[cond]
					for si, succ := range b.Succs {
						taken := si == 0
						if inside {
							if q.Exempt != nil && q.Exempt(cond, ci, taken) {
								continue
							}
							disch := false
							for _, ev := range q.Events {
								if ev.Edge != nil && ev.Edge(cond, ci, taken) {
									disch = true
									break
								}
							}
							if disch {
								continue
							}
						}
						note := ""
						if inside {
							note = fmt.Sprintf("%s `%s`=%v", fl.F.Prog.Pos(cond.Pos()), Src(fl.F.Prog.Fset, cond), taken)
						}
						push(vstate{succ, 0, inside}, k, note)
					}
					continue
				}
			}
			push(vstate{b, s.i + 1, inside}, k, "")
			continue
		}
		// End of block.
		if len(b.Succs) == 0 {
			// Function end (fallthrough off the body) or after a return/panic.
			if s.inside && (q.FuncEnd || q.FallOut) && !endsInReturnOrPanic(fl, b) {
				sites++
				report(k, fmt.Sprintf("%s (end of function)", fl.F.Prog.Pos(fl.F.Decl.Body.Rbrace)))
			}
			continue
		}
		for _, succ := range b.Succs {
			push(vstate{succ, 0, s.inside}, k, "")
		}
	}
	return esc, sites
}

func endsInReturnOrPanic(fl *Flow, b *cfg.Block) bool {
	if len(b.Nodes) == 0 {
		return false
	}
	switch n := b.Nodes[len(b.Nodes)-1].(type) {
	case *ast.ReturnStmt:
		return true
	case *ast.ExprStmt:
		if call, ok := n.X.(*ast.CallExpr); ok {
			if id, ok := call.Fun.(*ast.Ident); ok && id.Name == "panic" {
				return true
			}
		}
	}
	return false
}

// Guaranteed walks the parts of node n that are certainly evaluated when n
// executes (not the right operand of && / ||, not function literals, not the
// bodies of compound statements — those are separate CFG nodes) and reports
// whether pred holds for any call in them.
func Guaranteed(n ast.Node, pred func(call *ast.CallExpr) bool) bool {
	found := false
	var walk func(n ast.Node)
	walk = func(n ast.Node) {
		if n == nil || found {
			return
		}
		ast.Inspect(n, func(m ast.Node) bool {
			if found {
				return false
			}
			switch x := m.(type) {
			case *ast.FuncLit:
				return false
			case *ast.BinaryExpr:
				if x.Op == token.LAND || x.Op == token.LOR {
					walk(x.X)
					return false
				}
			case *ast.CallExpr:
				if pred(x) {
					found = true
					return false
				}
			}
			return true
		})
	}
	walk(n)
	return found
}

// AnyCall reports whether pred holds for any call anywhere inside n
// (including conditionally evaluated operands; excluding function literals).
func AnyCall(n ast.Node, pred func(call *ast.CallExpr) bool) bool {
	found := false
	ast.Inspect(n, func(m ast.Node) bool {
		if found {
			return false
		}
		switch x := m.(type) {
		case *ast.FuncLit:
			return false
		case *ast.CallExpr:
			if pred(x) {
				found = true
				return false
			}
		}
		return true
	})
	return found
}

// CallEvent is an Event satisfied by a guaranteed call matching pred.
func CallEvent(pred func(call *ast.CallExpr) bool) Event {
	return Event{Node: func(n ast.Node) bool { return Guaranteed(n, pred) }}
}

// ---- exits ----

// IsErrorReturn reports whether a return statement certainly returns a
// non-nil error as its last result, by the repository's idioms:
//
//	return …, fmt.Errorf(…) / errors.New(…) / a package-level error variable /
//	&T{…} / T{…}; `return …, err` directly inside `if err != nil {`.
//
// Anything else (literal nil, a tail call, a variable of unknown state) is
// treated as a possible success exit.
func (fl *Flow) IsErrorReturn(r *ast.ReturnStmt) bool {
	if len(r.Results) == 0 {
		return false
	}
	info := fl.F.Info()
	last := ast.Unparen(r.Results[len(r.Results)-1])
	tv, ok := info.Types[last]
	if !ok || !isErrorType(tv.Type) {
		// The function's last result is not an error.
		return false
	}
	switch x := last.(type) {
	case *ast.CallExpr:
		if fn := Callee(info, x); fn != nil && fn.Pkg() != nil {
			switch fn.Pkg().Path() + "." + fn.Name() {
			case "fmt.Errorf", "errors.New":
				return true
			}
		}
		return false
	case *ast.UnaryExpr:
		if _, ok := x.X.(*ast.CompositeLit); ok && x.Op == token.AND {
			return true
		}
	case *ast.CompositeLit:
		return true
	case *ast.Ident:
		if x.Name == "nil" {
			return false
		}
		obj := info.Uses[x]
		if v, ok := obj.(*types.Var); ok {
			if v.Parent() == v.Pkg().Scope() {
				return true // package-level error value such as errFailed
			}
			return fl.insideNonNilTest(r, v)
		}
	case *ast.SelectorExpr:
		if v, ok := info.Uses[x.Sel].(*types.Var); ok && !v.IsField() && v.Parent() == v.Pkg().Scope() {
			return true
		}
	}
	return false
}

func isErrorType(t types.Type) bool {
	if t == nil {
		return false
	}
	if types.Identical(t, types.Universe.Lookup("error").Type()) {
		return true
	}
	// Concrete types implementing error returned where error is expected.
	return types.Implements(t, types.Universe.Lookup("error").Type().Underlying().(*types.Interface))
}

// insideNonNilTest: r lies in the then-branch of an `if v != nil` (possibly
// with an init statement), with no else between.
func (fl *Flow) insideNonNilTest(r *ast.ReturnStmt, v *types.Var) bool {
	info := fl.F.Info()
	path := PathTo(fl.F.Decl.Body, r)
	for i := len(path) - 1; i >= 1; i-- {
		ifs, ok := path[i-1].(*ast.IfStmt)
		if !ok || path[i] != ifs.Body {
			continue
		}
		if be, ok := ast.Unparen(ifs.Cond).(*ast.BinaryExpr); ok && be.Op == token.NEQ {
			if id, ok := ast.Unparen(be.X).(*ast.Ident); ok && info.Uses[id] == v {
				if n, ok := ast.Unparen(be.Y).(*ast.Ident); ok && n.Name == "nil" {
					return true
				}
			}
		}
	}
	return false
}

// SuccessReturn is the usual Exit predicate: a return that may be a success.
func (fl *Flow) SuccessReturn(n ast.Node) bool {
	r, ok := n.(*ast.ReturnStmt)
	if !ok {
		return false
	}
	return !fl.IsErrorReturn(r)
}

// PathTo returns the chain of nodes from root down to target (inclusive).
func PathTo(root, target ast.Node) []ast.Node {
	var path, out []ast.Node
	ast.Inspect(root, func(n ast.Node) bool {
		if out != nil {
			return false
		}
		if n == nil {
			path = path[:len(path)-1]
			return true
		}
		path = append(path, n)
		if n == target {
			out = append([]ast.Node(nil), path...)
			return false
		}
		return true
	})
	return out
}

// markBranches inserts, in front of every break/continue/goto statement, a
// synthetic no-op expression statement so that the jump is visible as a CFG
// node (go/cfg turns branch statements into bare edges). The markers are
// recorded in fl.marks; types.Info is untouched (new nodes only).
func (fl *Flow) markBranches() {
	fl.marks = map[ast.Node]*ast.BranchStmt{}
	var fix func(list []ast.Stmt) []ast.Stmt
	fix = func(list []ast.Stmt) []ast.Stmt {
		var out []ast.Stmt
		for i, s := range list {
			if br, ok := s.(*ast.BranchStmt); ok && br.Tok != token.FALLTHROUGH {
				if i > 0 {
					if es, ok := list[i-1].(*ast.ExprStmt); ok {
						if bl, ok := es.X.(*ast.BasicLit); ok && bl.ValuePos == br.Pos() {
							fl.marks[es] = br // already marked by an earlier Flow of this function
							out = append(out, s)
							continue
						}
					}
				}
				txt := br.Tok.String()
				if br.Label != nil {
					txt += " " + br.Label.Name
				}
				m := &ast.ExprStmt{X: &ast.BasicLit{ValuePos: br.Pos(), Kind: token.STRING, Value: "\"" + txt + "\""}}
				fl.marks[m] = br
				out = append(out, m)
			}
			out = append(out, s)
		}
		return out
	}
	ast.Inspect(fl.F.Decl.Body, func(n ast.Node) bool {
		switch x := n.(type) {
		case *ast.FuncLit:
			return false
		case *ast.BlockStmt:
			x.List = fix(x.List)
		case *ast.CaseClause:
			x.Body = fix(x.Body)
		case *ast.CommClause:
			x.Body = fix(x.Body)
		}
		return true
	})
}

// Branch returns the break/continue/goto statement a CFG node stands for.
func (fl *Flow) Branch(n ast.Node) *ast.BranchStmt { return fl.marks[n] }

// NewFlowLit builds the flow view of a function literal that occurs inside f
// (its parameters are the literal's own).
func NewFlowLit(f *Func, lit *ast.FuncLit) *Flow {
	decl := &ast.FuncDecl{Name: &ast.Ident{Name: f.Decl.Name.Name + "$lit", NamePos: lit.Pos()}, Type: lit.Type, Body: lit.Body}
	sub := &Func{Pkg: f.Pkg, Decl: decl, Obj: f.Obj, Prog: f.Prog}
	return NewFlow(sub)
}
