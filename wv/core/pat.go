package core

import (
	"bytes"
	"go/ast"
	"go/constant"
	"go/printer"
	"go/token"
	"go/types"
	"strings"

	"golang.org/x/tools/go/types/typeutil"
)

// Callee resolves the static callee of a call (function, method, or method
// of an interface); nil for builtins, conversions and calls of function values.
func Callee(info *types.Info, call *ast.CallExpr) *types.Func {
	if f, ok := typeutil.Callee(info, call).(*types.Func); ok {
		return f
	}
	return nil
}

// IsCallTo: the call's resolved callee is fn (compared by origin so that
// methods of instantiated generics match).
func IsCallTo(info *types.Info, call *ast.CallExpr, fn *types.Func) bool {
	if fn == nil {
		return false
	}
	c := Callee(info, call)
	return c != nil && (c == fn || c.Origin() == fn.Origin())
}

// FuncFullName is pkgpath.(Recv).Name for diagnostics and tables.
func FuncFullName(f *types.Func) string {
	if f == nil {
		return "<nil>"
	}
	return strings.TrimPrefix(f.FullName(), Mod+"/")
}

// Refers: expression e is an identifier or selector resolving to obj.
func Refers(info *types.Info, e ast.Expr, obj types.Object) bool {
	if obj == nil {
		return false
	}
	switch x := ast.Unparen(e).(type) {
	case *ast.Ident:
		return info.Uses[x] == obj || info.Defs[x] == obj
	case *ast.SelectorExpr:
		return info.Uses[x.Sel] == obj
	}
	return false
}

// Mentions: obj is referenced anywhere inside n.
func Mentions(info *types.Info, n ast.Node, obj types.Object) bool {
	found := false
	ast.Inspect(n, func(m ast.Node) bool {
		if id, ok := m.(*ast.Ident); ok && info.Uses[id] == obj {
			found = true
		}
		return !found
	})
	return found
}

// ConstVal returns the constant value of e, if any.
func ConstVal(info *types.Info, e ast.Expr) constant.Value {
	if tv, ok := info.Types[e]; ok {
		return tv.Value
	}
	return nil
}

// ConstInt64 returns the int64 value of a constant expression.
func ConstInt64(info *types.Info, e ast.Expr) (int64, bool) {
	v := ConstVal(info, e)
	if v == nil {
		return 0, false
	}
	v = constant.ToInt(v)
	if v.Kind() != constant.Int {
		return 0, false
	}
	return constant.Int64Val(v)
}

// Src prints a node on one line, shortened.
func Src(fset *token.FileSet, n ast.Node) string {
	var b bytes.Buffer
	printer.Fprint(&b, fset, n)
	s := strings.Join(strings.Fields(b.String()), " ")
	if len(s) > 100 {
		s = s[:97] + "..."
	}
	return s
}

// SrcFull prints a node on one line, unshortened (for structural comparison
// only after normalisation by the caller).
func SrcFull(fset *token.FileSet, n ast.Node) string {
	var b bytes.Buffer
	printer.Fprint(&b, fset, n)
	return strings.Join(strings.Fields(b.String()), " ")
}

// IsNilIdent: e is the predeclared nil.
func IsNilIdent(info *types.Info, e ast.Expr) bool {
	id, ok := ast.Unparen(e).(*ast.Ident)
	if !ok {
		return false
	}
	_, isNil := info.Uses[id].(*types.Nil)
	return isNil
}

// FieldOf: e is a selector x.f where f is the field object.
func FieldOf(info *types.Info, e ast.Expr, field *types.Var) bool {
	sel, ok := ast.Unparen(e).(*ast.SelectorExpr)
	return ok && field != nil && info.Uses[sel.Sel] == field
}

// LookupField resolves a field of a named struct type.
func LookupField(named types.Object, name string) *types.Var {
	if named == nil {
		return nil
	}
	obj, _, _ := types.LookupFieldOrMethod(named.Type(), true, named.Pkg(), name)
	v, _ := obj.(*types.Var)
	return v
}

// ---- expression predicates over a function's resolved syntax ----

type ExprPred func(e ast.Expr) bool

func Any(e ast.Expr) bool { return true }

// Defs maps each local variable to the right-hand sides assigned to it by
// `:=`, `var x = …` and `=` (in source order).
func (fl *Flow) Defs() map[types.Object][]ast.Expr {
	if fl.defmap != nil {
		return fl.defmap
	}
	info := fl.F.Info()
	m := map[types.Object][]ast.Expr{}
	ast.Inspect(fl.F.Decl.Body, func(n ast.Node) bool {
		switch s := n.(type) {
		case *ast.AssignStmt:
			if len(s.Lhs) == len(s.Rhs) {
				for i, l := range s.Lhs {
					if id, ok := l.(*ast.Ident); ok {
						obj := info.Defs[id]
						if obj == nil {
							obj = info.Uses[id]
						}
						if obj != nil {
							m[obj] = append(m[obj], s.Rhs[i])
						}
					}
				}
			} else if len(s.Rhs) == 1 {
				for _, l := range s.Lhs {
					if id, ok := l.(*ast.Ident); ok {
						obj := info.Defs[id]
						if obj == nil {
							obj = info.Uses[id]
						}
						if obj != nil {
							m[obj] = append(m[obj], s.Rhs[0])
						}
					}
				}
			}
		case *ast.ValueSpec:
			for i, id := range s.Names {
				if i < len(s.Values) {
					if obj := info.Defs[id]; obj != nil {
						m[obj] = append(m[obj], s.Values[i])
					}
				}
			}
		}
		return true
	})
	fl.defmap = m
	return m
}

// Obj returns the object an identifier expression resolves to.
func (fl *Flow) Obj(e ast.Expr) types.Object {
	info := fl.F.Info()
	switch x := ast.Unparen(e).(type) {
	case *ast.Ident:
		if o := info.Uses[x]; o != nil {
			return o
		}
		return info.Defs[x]
	case *ast.SelectorExpr:
		return info.Uses[x.Sel]
	}
	return nil
}

// Is: e resolves to obj (or has obj's constant value, for constants).
func (fl *Flow) Is(obj types.Object) ExprPred {
	return func(e ast.Expr) bool {
		if obj == nil {
			return false
		}
		if fl.Obj(e) == obj {
			return true
		}
		if _, ok := obj.(*types.Const); ok {
			return SameConst(fl.F.Info(), e, obj)
		}
		return false
	}
}

// Param returns the i-th parameter object of the function (receiver excluded).
func (fl *Flow) Param(i int) types.Object {
	k := 0
	for _, f := range fl.F.Decl.Type.Params.List {
		for _, id := range f.Names {
			if k == i {
				return fl.F.Info().Defs[id]
			}
			k++
		}
	}
	return nil
}

// Recv returns the receiver object.
func (fl *Flow) Recv() types.Object {
	if fl.F.Decl.Recv == nil || len(fl.F.Decl.Recv.List) == 0 || len(fl.F.Decl.Recv.List[0].Names) == 0 {
		return nil
	}
	return fl.F.Info().Defs[fl.F.Decl.Recv.List[0].Names[0]]
}

// MethodChain: e is base.m1(..).m2(..)… where the resolved callees have the
// given names, in order, and base satisfies basePred.
func (fl *Flow) MethodChain(basePred ExprPred, names ...string) ExprPred {
	return func(e ast.Expr) bool {
		e = ast.Unparen(e)
		for i := len(names) - 1; i >= 0; i-- {
			call, ok := e.(*ast.CallExpr)
			if !ok {
				return false
			}
			fn := Callee(fl.F.Info(), call)
			if fn == nil || fn.Name() != names[i] {
				return false
			}
			sel, ok := ast.Unparen(call.Fun).(*ast.SelectorExpr)
			if !ok {
				return false
			}
			e = ast.Unparen(sel.X)
		}
		return basePred(e)
	}
}

// Denotes: e satisfies p directly, or e is a local variable one of whose
// definitions satisfies p (followed transitively through plain copies).
func (fl *Flow) Denotes(p ExprPred) ExprPred {
	var rec func(e ast.Expr, depth int) bool
	rec = func(e ast.Expr, depth int) bool {
		if p(e) {
			return true
		}
		if depth > 4 {
			return false
		}
		obj := fl.Obj(e)
		if v, ok := obj.(*types.Var); ok && !v.IsField() {
			for _, rhs := range fl.Defs()[obj] {
				if rec(rhs, depth+1) {
					return true
				}
			}
		}
		return false
	}
	return func(e ast.Expr) bool { return rec(e, 0) }
}

// VarDenoting finds the local variables with a definition satisfying p.
func (fl *Flow) VarsDenoting(p ExprPred) []types.Object {
	var out []types.Object
	for obj, rhss := range fl.Defs() {
		for _, r := range rhss {
			if p(r) {
				out = append(out, obj)
				break
			}
		}
	}
	return out
}

// Call builds a call predicate: resolved callee fn, and each given argument
// predicate (nil = any) holds.
func (fl *Flow) Call(fn *types.Func, args ...ExprPred) func(*ast.CallExpr) bool {
	return func(call *ast.CallExpr) bool {
		if !IsCallTo(fl.F.Info(), call, fn) {
			return false
		}
		for i, p := range args {
			if p == nil {
				continue
			}
			if i >= len(call.Args) || !p(call.Args[i]) {
				return false
			}
		}
		return true
	}
}

// CallNamed: callee resolved and its name (and package path suffix) match.
// Used for methods of types in other packages where holding the *types.Func
// is inconvenient.
func (fl *Flow) CallNamed(pkgSuffix, name string, args ...ExprPred) func(*ast.CallExpr) bool {
	return func(call *ast.CallExpr) bool {
		fn := Callee(fl.F.Info(), call)
		if fn == nil || fn.Name() != name {
			return false
		}
		if pkgSuffix != "" && (fn.Pkg() == nil || !strings.HasSuffix(fn.Pkg().Path(), pkgSuffix)) {
			return false
		}
		for i, p := range args {
			if p == nil {
				continue
			}
			if i >= len(call.Args) || !p(call.Args[i]) {
				return false
			}
		}
		return true
	}
}

// RecvOf returns the receiver expression of a method call.
func RecvOf(call *ast.CallExpr) ast.Expr {
	if sel, ok := ast.Unparen(call.Fun).(*ast.SelectorExpr); ok {
		return sel.X
	}
	return nil
}

// CountCalls counts calls inside n (anywhere, excluding func literals) that
// satisfy pred.
func CountCalls(n ast.Node, pred func(*ast.CallExpr) bool) int {
	k := 0
	ast.Inspect(n, func(m ast.Node) bool {
		switch x := m.(type) {
		case *ast.CallExpr:
			if pred(x) {
				k++
			}
		}
		return true
	})
	return k
}

// IsNilExpr: predicate for the predeclared nil.
func IsNilExpr(info *types.Info) ExprPred {
	return func(e ast.Expr) bool { return IsNilIdent(info, e) }
}

// ConstValInt converts a constant to int64.
func ConstValInt(v constant.Value) (int64, bool) {
	if v == nil {
		return 0, false
	}
	v = constant.ToInt(v)
	if v.Kind() != constant.Int {
		return 0, false
	}
	return constant.Int64Val(v)
}
