// Package core holds what every property checker shares: the run context,
// obligations and their verdicts, evidence and replay files, and the
// known-findings file.
package core

import (
	"crypto/sha1"
	"encoding/json"
	"fmt"
	"os"
	"path/filepath"
	"sort"
	"strconv"
	"strings"
	"time"
)

// Exit codes: 0 held, 1 violation, 2 infrastructure failure (no verdict).
const (
	ExitOK    = 0
	ExitViol  = 1
	ExitInfra = 2
)

// Ctx is the run context of one `wv check <id>` invocation.
type Ctx struct {
	Prop  string // "C01"
	Tier  string // "quick" | "thorough"
	Seed  int64
	Repo  string // /repo
	Verif string // /verif: where evidence/ and replay/ are written
	Home  string // /verif: where corpus/ and known-findings.txt are read (differs from Verif only in self-tests)
	Start time.Time

	obs      []*Obligation
	analysed map[string]interface{}
	notes    []string
	cleanups []func()
}

func NewCtx(prop, tier string) *Ctx {
	c := &Ctx{Prop: prop, Tier: tier, Repo: "/repo", Verif: "/verif", Start: time.Now(),
		analysed: map[string]interface{}{}}
	if s := os.Getenv("VERIF_SEED"); s != "" {
		c.Seed, _ = strconv.ParseInt(s, 10, 64)
	}
	if r := os.Getenv("WV_REPO"); r != "" {
		c.Repo = r
	}
	c.Home = c.Verif
	if r := os.Getenv("WV_HOME"); r != "" {
		c.Home = r
	}
	if r := os.Getenv("WV_VERIF"); r != "" {
		c.Verif = r
	}
	return c
}

func (c *Ctx) Thorough() bool { return c.Tier == "thorough" }

// OnExit registers a cleanup (scratch directory removal).
func (c *Ctx) OnExit(f func()) { c.cleanups = append(c.cleanups, f) }

func (c *Ctx) RunCleanups() {
	for i := len(c.cleanups) - 1; i >= 0; i-- {
		c.cleanups[i]()
	}
	c.cleanups = nil
}

// Status of an obligation.
const (
	OK        = "ok"
	Violation = "violation"
	Undecided = "undecided" // anchor not found / shape not recognised: fails like a violation
	Info      = "info"      // printed, never fails
)

// Obligation is one rule instance applied to one construct.
type Obligation struct {
	Rule   string `json:"rule"`   // e.g. "O3.lower"
	Anchor string `json:"anchor"` // construct: pkg.func[region]; never a line number
	Claim  string `json:"claim"`  // what must hold
	Status string `json:"status"`
	Detail string `json:"detail,omitempty"` // file:line diagnosis for failures; what was seen for ok
	Sites  int    `json:"sites"`            // sites / paths / entries examined for this obligation
}

func (c *Ctx) add(o *Obligation) *Obligation {
	c.obs = append(c.obs, o)
	return o
}

// Pass records a discharged obligation.
func (c *Ctx) Pass(rule, anchor, claim string, sites int, detail string) {
	c.add(&Obligation{Rule: rule, Anchor: anchor, Claim: claim, Status: OK, Sites: sites, Detail: detail})
}

// Fail records a violated obligation.
func (c *Ctx) Fail(rule, anchor, claim string, sites int, detail string) {
	c.add(&Obligation{Rule: rule, Anchor: anchor, Claim: claim, Status: Violation, Sites: sites, Detail: detail})
}

// Undecided records an obligation whose anchor or idiom was not recognised.
func (c *Ctx) Undecided(rule, anchor, claim string, detail string) {
	c.add(&Obligation{Rule: rule, Anchor: anchor, Claim: claim, Status: Undecided, Detail: detail})
}

// Informational line (never a verdict).
func (c *Ctx) Info(rule, anchor, detail string) {
	c.add(&Obligation{Rule: rule, Anchor: anchor, Status: Info, Detail: detail})
}

// Check is a convenience: ok ⇒ Pass, else Fail.
func (c *Ctx) Check(ok bool, rule, anchor, claim string, sites int, detail string) bool {
	if ok {
		c.Pass(rule, anchor, claim, sites, detail)
	} else {
		c.Fail(rule, anchor, claim, sites, detail)
	}
	return ok
}

// Floor fails when a rule matched fewer sites than were confirmed by hand.
func (c *Ctx) Floor(rule, what string, got, floor int) {
	claim := fmt.Sprintf("instance floor: at least %d %s", floor, what)
	if got < floor {
		c.Fail(rule+".floor", what, claim, got, fmt.Sprintf("matched %d < floor %d: the rule would pass vacuously", got, floor))
	} else {
		c.Pass(rule+".floor", what, claim, got, fmt.Sprintf("matched %d", got))
	}
}

func (c *Ctx) Analysed(key string, v interface{}) { c.analysed[key] = v }
func (c *Ctx) Note(s string)                      { c.notes = append(c.notes, s) }

// Spec describes the property-level texts that go into evidence.
type Spec struct {
	Decides     string   // "decides clause … of Cxx"
	NotDecided  string   // "does not decide …"
	Assumptions []string // trusted base
	Exhaustive  bool
}

type knownLine struct {
	kind, prop, rule, anchor, rest string
}

func loadKnown(path string) ([]knownLine, error) {
	b, err := os.ReadFile(path)
	if err != nil {
		if os.IsNotExist(err) {
			return nil, nil
		}
		return nil, err
	}
	var out []knownLine
	for _, ln := range strings.Split(string(b), "\n") {
		ln = strings.TrimSpace(ln)
		if ln == "" || strings.HasPrefix(ln, "#") {
			continue
		}
		var k knownLine
		switch {
		case strings.HasPrefix(ln, "known:"):
			k.kind = "known"
			ln = strings.TrimSpace(ln[len("known:"):])
		case strings.HasPrefix(ln, "fixed:"):
			k.kind = "fixed"
			ln = strings.TrimSpace(ln[len("fixed:"):])
		default:
			return nil, fmt.Errorf("known-findings: unrecognised line %q", ln)
		}
		fs := strings.Fields(ln)
		restAt := 0
		for i, f := range fs {
			switch {
			case strings.HasPrefix(f, "property="):
				k.prop = f[len("property="):]
			case strings.HasPrefix(f, "rule="):
				k.rule = f[len("rule="):]
			case strings.HasPrefix(f, "anchor="):
				k.anchor = f[len("anchor="):]
			default:
				restAt = i
				goto done
			}
			restAt = i + 1
		}
	done:
		k.rest = strings.Join(fs[restAt:], " ")
		out = append(out, k)
	}
	return out, nil
}

type evidence struct {
	PropertyID  string                 `json:"property_id"`
	Tier        string                 `json:"tier"`
	Seed        int64                  `json:"seed"`
	Level       string                 `json:"level"`
	Coverage    map[string]interface{} `json:"coverage"`
	Assumptions []string               `json:"assumptions"`
	WallS       float64                `json:"wall_s"`
	Violations  int                    `json:"violations"`
}

func slug(s string) string {
	var b strings.Builder
	for _, r := range s {
		switch {
		case r >= 'a' && r <= 'z', r >= 'A' && r <= 'Z', r >= '0' && r <= '9', r == '.', r == '-', r == '_':
			b.WriteRune(r)
		default:
			b.WriteByte('_')
		}
	}
	out := b.String()
	if len(out) > 80 {
		h := sha1.Sum([]byte(s))
		out = out[:60] + fmt.Sprintf("_%x", h[:6])
	}
	return out
}

// Finish writes evidence and replay files, prints the verdict lines and
// returns the process exit code.
func (c *Ctx) Finish(spec Spec) int {
	defer c.RunCleanups()
	known, err := loadKnown(filepath.Join(c.Home, "known-findings.txt"))
	if err != nil {
		fmt.Fprintf(os.Stderr, "wv: %v\n", err)
		return ExitInfra
	}
	isKnown := func(o *Obligation) *knownLine {
		for i := range known {
			k := &known[i]
			if k.kind == "known" && k.prop == c.Prop && k.rule == o.Rule && k.anchor == strings.ReplaceAll(o.Anchor, " ", "_") {
				return k
			}
		}
		return nil
	}

	replayDir := filepath.Join(c.Verif, "replay")
	os.MkdirAll(replayDir, 0o755)
	os.MkdirAll(filepath.Join(c.Verif, "evidence"), 0o755)
	// Remove stale replay files of this property.
	if old, _ := filepath.Glob(filepath.Join(replayDir, c.Prop+"-*.json")); old != nil {
		for _, f := range old {
			os.Remove(f)
		}
	}

	nOK, nViol, nKnown, nInfo, sites := 0, 0, 0, 0, 0
	distinct := map[string]bool{}
	var samples []interface{}
	var failing []interface{}
	perRule := map[string]int{}
	for _, o := range c.obs {
		sites += o.Sites
		switch o.Status {
		case OK:
			nOK++
			if o.Sites > 0 {
				distinct[o.Rule+"\x00"+o.Anchor] = true
			}
			perRule[strings.SplitN(o.Rule, ".", 2)[0]]++
		case Info:
			nInfo++
			fmt.Printf("INFO: property=%s rule=%s anchor=%s %s\n", c.Prop, o.Rule, o.Anchor, o.Detail)
		case Violation, Undecided:
			if k := isKnown(o); k != nil {
				nKnown++
				fmt.Printf("KNOWN-FINDING: property=%s rule=%s anchor=%s %s\n", c.Prop, o.Rule, o.Anchor, k.rest)
				continue
			}
			nViol++
			rp := filepath.Join(replayDir, fmt.Sprintf("%s-%s-%s.json", c.Prop, slug(o.Rule), slug(o.Anchor)))
			b, _ := json.MarshalIndent(map[string]interface{}{
				"property": c.Prop, "tier": c.Tier, "obligation": o,
				"replay": fmt.Sprintf("./check %s %s   # re-evaluates every instance; look for rule=%s anchor=%s", c.Prop, c.Tier, o.Rule, o.Anchor),
			}, "", " ")
			os.WriteFile(rp, append(b, '\n'), 0o644)
			fmt.Printf("FAIL[%s]: property=%s rule=%s anchor=%s\n    claim: %s\n    %s\n", o.Status, c.Prop, o.Rule, o.Anchor, o.Claim, strings.ReplaceAll(o.Detail, "\n", "\n    "))
			fmt.Printf("VIOLATION property=%s replay=%s\n", c.Prop, rp)
			failing = append(failing, o)
		}
	}
	// Samples: first obligation of each rule family, capped.
	seenRule := map[string]bool{}
	for _, o := range c.obs {
		if o.Status != OK {
			continue
		}
		fam := strings.SplitN(o.Rule, ".", 2)[0]
		if seenRule[fam] && len(samples) >= 6 {
			continue
		}
		if seenRule[fam] {
			continue
		}
		seenRule[fam] = true
		samples = append(samples, o)
		if len(samples) >= 40 {
			break
		}
	}
	if len(samples) == 0 {
		for _, o := range c.obs {
			samples = append(samples, o)
			if len(samples) >= 3 {
				break
			}
		}
	}
	obligations := nOK + nViol + nKnown
	expl := "decides: " + spec.Decides + " || does not decide: " + spec.NotDecided
	cov := map[string]interface{}{
		"explanation":         expl,
		"obligations":         obligations,
		"discharged":          nOK,
		"known_findings":      nKnown,
		"evaluations":         maxInt(sites, 1),
		"distinct_nontrivial": len(distinct),
		"rule":                "one obligation per (rule, construct) row of the checker's frozen tables, evaluated on /repo's working tree; evaluations = sites/paths/table entries examined; distinct_nontrivial = distinct (rule, anchor) pairs that examined at least one site",
		"samples":             samples,
		"exhaustive":          spec.Exhaustive,
		"obligations_by_rule": perRule,
		"analysed":            c.analysed,
		"checker_cmd":         fmt.Sprintf("./check %s %s", c.Prop, c.Tier),
		"trusted_base":        spec.Assumptions,
	}
	if len(failing) > 0 {
		cov["failing"] = failing
	}
	if len(c.notes) > 0 {
		cov["notes"] = c.notes
	}
	// All obligations, compactly, so a reader sees exactly what was decided.
	var all []string
	for _, o := range c.obs {
		if o.Status == Info {
			continue
		}
		all = append(all, fmt.Sprintf("%s %s @ %s (%d sites)", o.Status, o.Rule, o.Anchor, o.Sites))
	}
	sort.Strings(all)
	cov["all_obligations"] = all
	ev := evidence{PropertyID: c.Prop, Tier: c.Tier, Seed: c.Seed, Level: "other", Coverage: cov,
		Assumptions: spec.Assumptions, WallS: time.Since(c.Start).Seconds(), Violations: nViol}
	b, _ := json.MarshalIndent(ev, "", " ")
	evPath := filepath.Join(c.Verif, "evidence", c.Prop+".json")
	if err := os.WriteFile(evPath, append(b, '\n'), 0o644); err != nil {
		fmt.Fprintf(os.Stderr, "wv: %v\n", err)
		return ExitInfra
	}
	fmt.Printf("SUMMARY property=%s tier=%s obligations=%d discharged=%d known=%d violations=%d sites=%d wall=%.1fs evidence=%s\n",
		c.Prop, c.Tier, obligations, nOK, nKnown, nViol, sites, time.Since(c.Start).Seconds(), evPath)
	if obligations == 0 {
		fmt.Fprintf(os.Stderr, "wv: no obligations evaluated for %s\n", c.Prop)
		return ExitInfra
	}
	if nViol > 0 {
		return ExitViol
	}
	return ExitOK
}

func maxInt(a, b int) int {
	if a > b {
		return a
	}
	return b
}

// Infra aborts the run with an infrastructure failure (no verdict).
func (c *Ctx) Infra(format string, args ...interface{}) {
	fmt.Fprintf(os.Stderr, "wv: infrastructure failure: "+format+"\n", args...)
	c.RunCleanups()
	os.Exit(ExitInfra)
}
