package core

import (
	"fmt"
	"strings"
)

// E11: a tokenizer and statement-tree parser for the C subset that cgen emits
// (and that the hand-written base uses at function level). It is a structural
// view for ordering / pairing rules, not a C compiler.

type CTok struct {
	Kind byte // 'i' identifier/keyword, 'n' number, 's' string, 'c' char, 'p' punctuation, '#' preprocessor line
	Text string
	Line int
}

func (t CTok) Is(s string) bool { return t.Text == s && t.Kind != 's' && t.Kind != 'c' }

// CLex tokenizes C source. Comments are dropped; a preprocessor directive
// (with continuation lines) is one '#' token.
func CLex(src string) []CTok {
	var out []CTok
	line := 1
	i, n := 0, len(src)
	atLineStart := true
	for i < n {
		ch := src[i]
		switch {
		case ch == '\n':
			line++
			i++
			atLineStart = true
			continue
		case ch == ' ' || ch == '\t' || ch == '\r' || ch == '\f' || ch == '\v':
			i++
			continue
		case ch == '/' && i+1 < n && src[i+1] == '/':
			for i < n && src[i] != '\n' {
				i++
			}
			continue
		case ch == '/' && i+1 < n && src[i+1] == '*':
			i += 2
			for i+1 < n && !(src[i] == '*' && src[i+1] == '/') {
				if src[i] == '\n' {
					line++
				}
				i++
			}
			i += 2
			continue
		case ch == '#' && atLineStart:
			start, l0 := i, line
			for i < n {
				if src[i] == '\\' && i+1 < n && src[i+1] == '\n' {
					i += 2
					line++
					continue
				}
				if src[i] == '/' && i+1 < n && src[i+1] == '*' {
					// comment inside a directive
					i += 2
					for i+1 < n && !(src[i] == '*' && src[i+1] == '/') {
						if src[i] == '\n' {
							line++
						}
						i++
					}
					i += 2
					continue
				}
				if src[i] == '/' && i+1 < n && src[i+1] == '/' {
					for i < n && src[i] != '\n' {
						i++
					}
					break
				}
				if src[i] == '\n' {
					break
				}
				i++
			}
			out = append(out, CTok{'#', strings.Join(strings.Fields(src[start:i]), " "), l0})
			continue
		}
		atLineStart = false
		switch {
		case ch == '"' || (ch == 'L' && i+1 < n && src[i+1] == '"'):
			start := i
			if ch == 'L' {
				i++
			}
			i++
			for i < n && src[i] != '"' {
				if src[i] == '\\' {
					i++
				}
				if i < n && src[i] == '\n' {
					line++
				}
				i++
			}
			i++
			out = append(out, CTok{'s', src[start:min(i, n)], line})
		case ch == '\'':
			start := i
			i++
			for i < n && src[i] != '\'' {
				if src[i] == '\\' {
					i++
				}
				i++
			}
			i++
			out = append(out, CTok{'c', src[start:min(i, n)], line})
		case ch == '_' || (ch >= 'a' && ch <= 'z') || (ch >= 'A' && ch <= 'Z'):
			start := i
			for i < n && (src[i] == '_' || (src[i] >= 'a' && src[i] <= 'z') || (src[i] >= 'A' && src[i] <= 'Z') || (src[i] >= '0' && src[i] <= '9')) {
				i++
			}
			out = append(out, CTok{'i', src[start:i], line})
		case ch >= '0' && ch <= '9' || (ch == '.' && i+1 < n && src[i+1] >= '0' && src[i+1] <= '9'):
			start := i
			for i < n && (src[i] == '.' || src[i] == '_' || (src[i] >= 'a' && src[i] <= 'z') || (src[i] >= 'A' && src[i] <= 'Z') || (src[i] >= '0' && src[i] <= '9') ||
				((src[i] == '+' || src[i] == '-') && (src[i-1] == 'e' || src[i-1] == 'E' || src[i-1] == 'p' || src[i-1] == 'P') && !strings.HasPrefix(strings.ToLower(src[start:i]), "0x"))) {
				i++
			}
			out = append(out, CTok{'n', src[start:i], line})
		default:
			// punctuation, longest match
			ops := []string{"<<=", ">>=", "...", "->", "++", "--", "<<", ">>", "<=", ">=", "==", "!=", "&&", "||", "+=", "-=", "*=", "/=", "%=", "&=", "|=", "^=", "##"}
			matched := false
			for _, op := range ops {
				if strings.HasPrefix(src[i:], op) {
					out = append(out, CTok{'p', op, line})
					i += len(op)
					matched = true
					break
				}
			}
			if !matched {
				out = append(out, CTok{'p', string(ch), line})
				i++
			}
		}
	}
	return out
}

// CFunc is a function definition found at file scope.
type CFunc struct {
	Name   string
	Head   []CTok // tokens before the name (storage class, qualifiers, return type, macros)
	Params []CTok // tokens between the parentheses
	Body   []CTok // tokens between the braces (exclusive)
	Line   int
	// Preprocessor conditionals (#if/#ifdef lines) open at the definition, innermost last.
	PPStack []string
}

func (f *CFunc) HeadHas(s string) bool {
	for _, t := range f.Head {
		if t.Is(s) {
			return true
		}
	}
	return false
}

// CFile is a lexed translation unit with its function definitions.
type CFile struct {
	Path  string
	Toks  []CTok
	Funcs []*CFunc
	ByNam map[string]*CFunc
	// FileScope: non-function declarations at brace depth 0, each as its tokens
	// (up to and excluding ';'), with the pp stack at that point.
	Decls []CDecl
}

type CDecl struct {
	Toks    []CTok
	PPStack []string
	Line    int
}

func matchClose(toks []CTok, i int, open, close string) int {
	depth := 0
	for j := i; j < len(toks); j++ {
		if toks[j].Is(open) {
			depth++
		} else if toks[j].Is(close) {
			depth--
			if depth == 0 {
				return j
			}
		}
	}
	return -1
}

// CParseFile finds function definitions and file-scope declarations.
func CParseFile(path, src string) *CFile {
	toks := CLex(src)
	cf := &CFile{Path: path, Toks: toks, ByNam: map[string]*CFunc{}}
	var pp []string
	start := 0 // start of the current file-scope declaration
	i := 0
	for i < len(toks) {
		t := toks[i]
		if t.Kind == '#' {
			d := t.Text
			switch {
			case strings.HasPrefix(d, "#if"):
				pp = append(pp, d)
			case strings.HasPrefix(d, "#elif"), strings.HasPrefix(d, "#else"):
				if len(pp) > 0 {
					pp[len(pp)-1] = pp[len(pp)-1] + " /" + d
				}
			case strings.HasPrefix(d, "#endif"):
				if len(pp) > 0 {
					pp = pp[:len(pp)-1]
				}
			}
			if i == start {
				start = i + 1
			}
			i++
			continue
		}
		if t.Is(";") {
			if i > start {
				cf.Decls = append(cf.Decls, CDecl{Toks: withoutPP(toks[start:i]), PPStack: append([]string(nil), pp...), Line: toks[start].Line})
			}
			start = i + 1
			i++
			continue
		}
		if t.Is("(") {
			// candidate: ident ( … ) {
			cl := matchClose(toks, i, "(", ")")
			if cl < 0 {
				break
			}
			if i > start && toks[i-1].Kind == 'i' && cl+1 < len(toks) && toks[cl+1].Is("{") {
				end := matchClose(toks, cl+1, "{", "}")
				if end < 0 {
					break
				}
				fn := &CFunc{Name: toks[i-1].Text, Head: withoutPP(toks[start : i-1]), Params: toks[i+1 : cl], Body: toks[cl+2 : end], Line: toks[i-1].Line,
					PPStack: append([]string(nil), pp...)}
				cf.Funcs = append(cf.Funcs, fn)
				if _, dup := cf.ByNam[fn.Name]; !dup {
					cf.ByNam[fn.Name] = fn
				}
				// Track pp directives inside the body for nesting correctness.
				for _, bt := range toks[cl+2 : end] {
					if bt.Kind == '#' {
						d := bt.Text
						switch {
						case strings.HasPrefix(d, "#if"):
							pp = append(pp, d)
						case strings.HasPrefix(d, "#endif"):
							if len(pp) > 0 {
								pp = pp[:len(pp)-1]
							}
						}
					}
				}
				i = end + 1
				start = i
				continue
			}
			i = cl + 1
			continue
		}
		if t.Is("{") && i > 0 && toks[i-1].Kind == 's' {
			// extern "C" {  — not a scope we skip
			i++
			start = i
			continue
		}
		if t.Is("}") {
			i++
			start = i
			continue
		}
		if t.Is("{") {
			// struct/union/enum/initializer at file scope: skip to matching brace
			end := matchClose(toks, i, "{", "}")
			if end < 0 {
				break
			}
			for _, bt := range toks[i:end] {
				if bt.Kind == '#' {
					d := bt.Text
					switch {
					case strings.HasPrefix(d, "#if"):
						pp = append(pp, d)
					case strings.HasPrefix(d, "#endif"):
						if len(pp) > 0 {
							pp = pp[:len(pp)-1]
						}
					}
				}
			}
			i = end + 1
			continue
		}
		i++
	}
	return cf
}

func withoutPP(toks []CTok) []CTok {
	var out []CTok
	for _, t := range toks {
		if t.Kind != '#' {
			out = append(out, t)
		}
	}
	return out
}

// ---- statements ----

type CStmt struct {
	Kind  string // if while do for switch label case goto return break continue block expr
	Toks  []CTok // expr/return/goto: the statement's tokens (without ';'); if/while/switch/for: the condition tokens
	Label string
	Body  []*CStmt
	Else  []*CStmt
	Line  int
}

func (s *CStmt) Text() string { return CText(s.Toks) }

// CText joins tokens with single spaces (diagnostics and token-level matching).
func CText(toks []CTok) string {
	var b strings.Builder
	for i, t := range toks {
		if i > 0 {
			b.WriteByte(' ')
		}
		b.WriteString(t.Text)
	}
	return b.String()
}

type cparser struct {
	toks []CTok
	i    int
	err  error
}

// CParseBody parses the tokens of a function body into a statement list.
func CParseBody(body []CTok) ([]*CStmt, error) {
	p := &cparser{toks: withoutPP(body)}
	var out []*CStmt
	for p.i < len(p.toks) && p.err == nil {
		out = append(out, p.stmt())
	}
	return out, p.err
}

func (p *cparser) peek() CTok {
	if p.i < len(p.toks) {
		return p.toks[p.i]
	}
	return CTok{}
}

func (p *cparser) fail(format string, args ...interface{}) *CStmt {
	if p.err == nil {
		p.err = fmt.Errorf("line %d: "+format, append([]interface{}{p.peek().Line}, args...)...)
	}
	p.i = len(p.toks)
	return &CStmt{Kind: "error"}
}

func (p *cparser) paren() []CTok {
	if !p.peek().Is("(") {
		p.fail("expected ( got %q", p.peek().Text)
		return nil
	}
	cl := matchClose(p.toks, p.i, "(", ")")
	if cl < 0 {
		p.fail("unbalanced (")
		return nil
	}
	out := p.toks[p.i+1 : cl]
	p.i = cl + 1
	return out
}

func (p *cparser) blockOrStmt() []*CStmt {
	if p.peek().Is("{") {
		cl := matchClose(p.toks, p.i, "{", "}")
		if cl < 0 {
			p.fail("unbalanced {")
			return nil
		}
		sub := &cparser{toks: p.toks[p.i+1 : cl]}
		var out []*CStmt
		for sub.i < len(sub.toks) && sub.err == nil {
			out = append(out, sub.stmt())
		}
		if sub.err != nil && p.err == nil {
			p.err = sub.err
		}
		p.i = cl + 1
		return out
	}
	return []*CStmt{p.stmt()}
}

func (p *cparser) untilSemi() []CTok {
	start := p.i
	depth := 0
	for p.i < len(p.toks) {
		t := p.toks[p.i]
		if t.Is("(") || t.Is("{") || t.Is("[") {
			depth++
		} else if t.Is(")") || t.Is("}") || t.Is("]") {
			depth--
		} else if t.Is(";") && depth == 0 {
			out := p.toks[start:p.i]
			p.i++
			return out
		}
		p.i++
	}
	return p.toks[start:]
}

func (p *cparser) stmt() *CStmt {
	t := p.peek()
	line := t.Line
	switch {
	case t.Is("{"):
		return &CStmt{Kind: "block", Body: p.blockOrStmt(), Line: line}
	case t.Is(";"):
		p.i++
		return &CStmt{Kind: "expr", Line: line}
	case t.Is("if"):
		p.i++
		cond := p.paren()
		body := p.blockOrStmt()
		s := &CStmt{Kind: "if", Toks: cond, Body: body, Line: line}
		if p.peek().Is("else") {
			p.i++
			s.Else = p.blockOrStmt()
		}
		return s
	case t.Is("while"):
		p.i++
		cond := p.paren()
		return &CStmt{Kind: "while", Toks: cond, Body: p.blockOrStmt(), Line: line}
	case t.Is("for"):
		p.i++
		cond := p.paren()
		return &CStmt{Kind: "for", Toks: cond, Body: p.blockOrStmt(), Line: line}
	case t.Is("switch"):
		p.i++
		cond := p.paren()
		return &CStmt{Kind: "switch", Toks: cond, Body: p.blockOrStmt(), Line: line}
	case t.Is("do"):
		p.i++
		body := p.blockOrStmt()
		if !p.peek().Is("while") {
			return p.fail("do without while")
		}
		p.i++
		cond := p.paren()
		if p.peek().Is(";") {
			p.i++
		}
		return &CStmt{Kind: "do", Toks: cond, Body: body, Line: line}
	case t.Is("case"):
		p.i++
		start := p.i
		for p.i < len(p.toks) && !p.toks[p.i].Is(":") {
			p.i++
		}
		s := &CStmt{Kind: "case", Toks: p.toks[start:p.i], Line: line}
		p.i++
		return s
	case t.Is("default") && p.i+1 < len(p.toks) && p.toks[p.i+1].Is(":"):
		p.i += 2
		return &CStmt{Kind: "case", Label: "default", Line: line}
	case t.Is("goto"):
		p.i++
		toks := p.untilSemi()
		lbl := ""
		if len(toks) > 0 {
			lbl = toks[0].Text
		}
		return &CStmt{Kind: "goto", Label: lbl, Toks: toks, Line: line}
	case t.Is("return"):
		p.i++
		return &CStmt{Kind: "return", Toks: p.untilSemi(), Line: line}
	case t.Is("break"):
		p.i++
		p.untilSemi()
		return &CStmt{Kind: "break", Line: line}
	case t.Is("continue"):
		p.i++
		p.untilSemi()
		return &CStmt{Kind: "continue", Line: line}
	case t.Kind == 'i' && p.i+1 < len(p.toks) && p.toks[p.i+1].Is(":") && !(p.i+2 < len(p.toks) && p.toks[p.i+2].Is(":")):
		p.i += 2
		return &CStmt{Kind: "label", Label: t.Text, Line: line}
	}
	return &CStmt{Kind: "expr", Toks: p.untilSemi(), Line: line}
}

// CWalk visits statements depth-first in source order; f returns false to
// skip a statement's children.
func CWalk(list []*CStmt, f func(s *CStmt) bool) {
	for _, s := range list {
		if !f(s) {
			continue
		}
		CWalk(s.Body, f)
		CWalk(s.Else, f)
	}
}

// CHasTok reports whether the token sequence seq occurs in toks.
func CHasSeq(toks []CTok, seq ...string) bool {
	return CFindSeq(toks, seq...) >= 0
}

func CFindSeq(toks []CTok, seq ...string) int {
	for i := 0; i+len(seq) <= len(toks); i++ {
		ok := true
		for j, s := range seq {
			if !toks[i+j].Is(s) {
				ok = false
				break
			}
		}
		if ok {
			return i
		}
	}
	return -1
}
