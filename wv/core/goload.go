package core

import (
	"fmt"
	"go/ast"
	"go/token"
	"go/types"
	"os"
	"path/filepath"
	"sort"
	"strings"

	"golang.org/x/tools/go/packages"
	"golang.org/x/tools/go/ssa"
	"golang.org/x/tools/go/ssa/ssautil"
)

const Mod = "github.com/google/wuffs"

// GoProg is the type-checked tier-G program (a subset of the module's packages).
type GoProg struct {
	Fset  *token.FileSet
	Pkgs  []*packages.Package          // roots, sorted by path
	ByPth map[string]*packages.Package // every package reached, by import path
	Repo  string

	ssaProg *ssa.Program
	ssaPkgs []*ssa.Package
}

// GoEnv is the environment used for every go command that looks at /repo.
// -mod=readonly: running go with -mod=mod inside /repo rewrites /repo/go.mod.
func GoEnv() []string {
	env := []string{}
	for _, kv := range os.Environ() {
		k := strings.SplitN(kv, "=", 2)[0]
		switch k {
		case "GOFLAGS", "GOPROXY", "GOSUMDB", "GOWORK", "GOTOOLCHAIN", "GO111MODULE":
			continue
		}
		env = append(env, kv)
	}
	return append(env, "GOFLAGS=-mod=readonly", "GOPROXY=off", "GOSUMDB=off", "GOWORK=off", "GOTOOLCHAIN=local", "GO111MODULE=on")
}

// LoadGo loads the given package patterns (relative to the module, e.g.
// "./lang/check") from the repo's working tree with full syntax and types for
// the roots and all module-internal dependencies.
func (c *Ctx) LoadGo(patterns ...string) *GoProg {
	cfg := &packages.Config{
		Mode: packages.NeedName | packages.NeedFiles | packages.NeedCompiledGoFiles | packages.NeedImports |
			packages.NeedDeps | packages.NeedTypes | packages.NeedSyntax | packages.NeedTypesInfo | packages.NeedTypesSizes | packages.NeedModule,
		Dir:  c.Repo,
		Env:  GoEnv(),
		Fset: token.NewFileSet(),
	}
	pkgs, err := packages.Load(cfg, patterns...)
	if err != nil {
		c.Infra("packages.Load %v: %v", patterns, err)
	}
	if len(pkgs) == 0 {
		c.Infra("packages.Load %v: zero packages", patterns)
	}
	gp := &GoProg{Fset: cfg.Fset, ByPth: map[string]*packages.Package{}, Repo: c.Repo}
	nerr := 0
	packages.Visit(pkgs, nil, func(p *packages.Package) {
		gp.ByPth[p.PkgPath] = p
		if strings.HasPrefix(p.PkgPath, Mod) {
			for _, e := range p.Errors {
				fmt.Fprintf(os.Stderr, "wv: load error in %s: %v\n", p.PkgPath, e)
				nerr++
			}
		}
	})
	if nerr > 0 {
		c.Infra("%d load/type errors in module packages", nerr)
	}
	sort.Slice(pkgs, func(i, j int) bool { return pkgs[i].PkgPath < pkgs[j].PkgPath })
	gp.Pkgs = pkgs
	return gp
}

// Pkg returns a loaded package by module-relative path ("lang/check").
func (g *GoProg) Pkg(rel string) *packages.Package {
	return g.ByPth[Mod+"/"+rel]
}

// ModulePkgs lists every loaded package of the wuffs module, sorted.
func (g *GoProg) ModulePkgs() []*packages.Package {
	var out []*packages.Package
	for p, pk := range g.ByPth {
		if strings.HasPrefix(p, Mod) {
			out = append(out, pk)
		}
	}
	sort.Slice(out, func(i, j int) bool { return out[i].PkgPath < out[j].PkgPath })
	return out
}

// Func is a resolved function or method declaration.
type Func struct {
	Pkg  *packages.Package
	Decl *ast.FuncDecl
	Obj  *types.Func
	Prog *GoProg
}

func (f *Func) Info() *types.Info { return f.Pkg.TypesInfo }

// Name is pkgrel.(Recv).Name without positions.
func (f *Func) Name() string {
	rel := strings.TrimPrefix(f.Pkg.PkgPath, Mod+"/")
	if r := recvName(f.Decl); r != "" {
		return rel + ".(" + r + ")." + f.Decl.Name.Name
	}
	return rel + "." + f.Decl.Name.Name
}

func recvName(d *ast.FuncDecl) string {
	if d.Recv == nil || len(d.Recv.List) == 0 {
		return ""
	}
	t := d.Recv.List[0].Type
	star := ""
	if s, ok := t.(*ast.StarExpr); ok {
		t = s.X
		star = "*"
	}
	if ix, ok := t.(*ast.IndexExpr); ok {
		t = ix.X
	}
	if id, ok := t.(*ast.Ident); ok {
		return star + id.Name
	}
	return ""
}

// FindFunc resolves pkg-relative path, receiver type name ("" for a
// function; "checker" matches both checker and *checker) and name.
func (g *GoProg) FindFunc(rel, recv, name string) *Func {
	p := g.Pkg(rel)
	if p == nil {
		return nil
	}
	for _, f := range p.Syntax {
		for _, d := range f.Decls {
			fd, ok := d.(*ast.FuncDecl)
			if !ok || fd.Name.Name != name || fd.Body == nil {
				continue
			}
			r := strings.TrimPrefix(recvName(fd), "*")
			if r != strings.TrimPrefix(recv, "*") {
				continue
			}
			obj, _ := p.TypesInfo.Defs[fd.Name].(*types.Func)
			return &Func{Pkg: p, Decl: fd, Obj: obj, Prog: g}
		}
	}
	return nil
}

// AllFuncs lists every function declaration with a body in the package.
func (g *GoProg) AllFuncs(p *packages.Package) []*Func {
	var out []*Func
	for _, f := range p.Syntax {
		for _, d := range f.Decls {
			if fd, ok := d.(*ast.FuncDecl); ok && fd.Body != nil {
				obj, _ := p.TypesInfo.Defs[fd.Name].(*types.Func)
				out = append(out, &Func{Pkg: p, Decl: fd, Obj: obj, Prog: g})
			}
		}
	}
	return out
}

// LookupObj resolves a package-level object.
func (g *GoProg) LookupObj(rel, name string) types.Object {
	p := g.Pkg(rel)
	if p == nil {
		p = g.ByPth[rel] // allow std paths such as "math/big"
	}
	if p == nil || p.Types == nil {
		return nil
	}
	return p.Types.Scope().Lookup(name)
}

// LookupMethod resolves a method of a named type in a loaded package
// (module-relative path or a full std import path).
func (g *GoProg) LookupMethod(rel, typ, name string) *types.Func {
	o := g.LookupObj(rel, typ)
	if o == nil {
		return nil
	}
	obj, _, _ := types.LookupFieldOrMethod(types.NewPointer(o.Type()), true, o.Pkg(), name)
	f, _ := obj.(*types.Func)
	return f
}

// Pos renders a position relative to the repo root.
func (g *GoProg) Pos(p token.Pos) string {
	if !p.IsValid() {
		return "?"
	}
	ps := g.Fset.Position(p)
	rel, err := filepath.Rel(g.Repo, ps.Filename)
	if err != nil {
		rel = ps.Filename
	}
	return fmt.Sprintf("%s:%d", rel, ps.Line)
}

// SSA builds (once) the SSA program for all loaded packages.
func (g *GoProg) SSA() (*ssa.Program, []*ssa.Package) {
	if g.ssaProg == nil {
		g.ssaProg, g.ssaPkgs = ssautil.AllPackages(g.Pkgs, ssa.InstantiateGenerics)
		g.ssaProg.Build()
	}
	return g.ssaProg, g.ssaPkgs
}

// SSAFunc finds the SSA function of a declaration.
func (g *GoProg) SSAFunc(f *Func) *ssa.Function {
	prog, _ := g.SSA()
	if f.Obj == nil {
		return nil
	}
	return prog.FuncValue(f.Obj)
}
