package main

// C13, rule family T.tree — structural necessary conditions of "the file is
// spec-valid and can be read back" in the index tree builder of the RAC writer
// (lib/rac/chunk_writer.go: gather, makeBranch, calcEncodedSize, writeIndex).
//
//   T.tree.lone    no branch node is built around a single child that is itself
//                  a branch (the specification's anti-loop rule, enforced by
//                  ChunkReader — C15 R.rank — rejects such a file)
//   T.tree.keep    the remainder of a level is carried into the next level
//   T.tree.layout  calcEncodedSize (which assigns the COffsets) and writeIndex
//                  (which writes the nodes) traverse the tree in the same order
//
// Repaired defect behind T.tree.lone: /repo d723e81.

import (
	"fmt"
	"go/ast"
	"go/constant"
	"go/token"
	"go/types"
	"sort"
	"strings"

	"wv/core"
)

type c13Group struct {
	lo    c13Aff
	hi    *c13Aff // nil: up to the end of the level
	whole bool    // the level variable itself, not sliced
}

type c13Tree struct {
	s        *c13
	fl       *core.Flow
	env      *c13Env
	level    *types.Var // gather's []wNode parameter, re-bound to the next level at the end of each round
	children *types.Var // wNode.children
	lenLevel c13Aff
}

func (t *c13Tree) groupOf(e ast.Expr, at ast.Node, depth int) (c13Group, bool) {
	if depth > 6 {
		return c13Group{}, false
	}
	env := t.env
	switch x := ast.Unparen(e).(type) {
	case *ast.Ident:
		v, _ := env.fl.Obj(x).(*types.Var)
		if v == nil {
			return c13Group{}, false
		}
		if v == t.level {
			return c13Group{lo: affK(0), whole: true}, true
		}
		if d, ok := env.plain[v]; ok && env.fresh(v, at) {
			return t.groupOf(d.rhs, d.stmt, depth+1)
		}
	case *ast.SliceExpr:
		if x.Slice3 {
			return c13Group{}, false
		}
		in, ok := t.groupOf(x.X, at, depth+1)
		if !ok {
			return c13Group{}, false
		}
		g := c13Group{lo: in.lo, hi: in.hi, whole: in.whole}
		if x.Low != nil {
			lo, ok := env.aff(x.Low, at)
			if !ok {
				return c13Group{}, false
			}
			if k, isk := lo.isConst(); !isk || k != 0 {
				g.whole = false
			}
			g.lo = in.lo.plus(lo, 1)
		}
		if x.High != nil {
			hi, ok := env.aff(x.High, at)
			if !ok {
				return c13Group{}, false
			}
			h := in.lo.plus(hi, 1)
			g.hi = &h
			g.whole = false
		}
		if g.hi != nil && g.hi.equal(t.lenLevel) {
			g.hi = nil
			if k, isk := g.lo.isConst(); isk && k == 0 {
				g.whole = true
			}
		}
		return g, true
	}
	return c13Group{}, false
}

// openAt: a group with an explicit upper bound is still "up to the end of the
// level" when every path to node `at` (from entry and from each write to the
// bound) crosses an edge implying bound >= len(level) — `nodes[i:j]` after the
// loop `for ; j < len(nodes); j++` has run to completion.
func (t *c13Tree) openAt(g c13Group, at ast.Node) c13Group {
	if g.hi == nil || at == nil {
		return g
	}
	T := t.lenLevel.plus(*g.hi, -1)
	if len(T.t) == 0 {
		return g
	}
	edge := func(cond ast.Expr, ci *core.CondInfo, taken bool) bool {
		return t.env.edgeImplies(cond, taken, cond, func(f c13Aff, op token.Token) bool {
			r, ok := c13BoundsOn(f, op, T)
			return ok && r.atMost(0)
		})
	}
	deps := map[types.Object]bool{types.Object(t.level): true}
	for x := range g.hi.t {
		if x.obj != nil {
			deps[x.obj] = true
		}
	}
	esc, _ := c13FromEntryAndEach(t.fl, t.env.killsOf(deps), core.Query{Exit: func(n ast.Node) bool { return n == at }, Events: []core.Event{{Edge: edge}}})
	if len(esc) == 0 {
		g.hi = nil
	}
	return g
}

func (t *c13Tree) length(g c13Group) c13Aff {
	if g.hi != nil {
		return g.hi.plus(g.lo, -1)
	}
	return t.lenLevel.plus(g.lo, -1)
}

// isFirst: e denotes the first element of group g (value, pointer or copy).
func (t *c13Tree) isFirst(e ast.Expr, g c13Group, at ast.Node, depth int) bool {
	if depth > 6 {
		return false
	}
	env := t.env
	switch x := ast.Unparen(e).(type) {
	case *ast.UnaryExpr:
		if x.Op == token.AND {
			return t.isFirst(x.X, g, at, depth+1)
		}
	case *ast.StarExpr:
		return t.isFirst(x.X, g, at, depth+1)
	case *ast.Ident:
		if v, ok := env.fl.Obj(x).(*types.Var); ok {
			if d, isPlain := env.plain[v]; isPlain && env.fresh(v, at) {
				return t.isFirst(d.rhs, g, d.stmt, depth+1)
			}
		}
	case *ast.IndexExpr:
		in, ok := t.groupOf(x.X, at, depth+1)
		if !ok {
			return false
		}
		idx, ok := env.aff(x.Index, at)
		if !ok {
			return false
		}
		return in.lo.plus(idx, 1).equal(g.lo)
	}
	return false
}

var c13AtomFirstKids = c13Atom{kind: 's', tag: "len(first.children)"}

// withGroup installs the rule-specific atom "number of children of g's first element".
func (t *c13Tree) withGroup(g c13Group) {
	t.env.special = func(e ast.Expr, at ast.Node) (c13Atom, bool) {
		sel, ok := e.(*ast.SelectorExpr)
		if !ok || t.env.info.Uses[sel.Sel] != types.Object(t.children) {
			return c13Atom{}, false
		}
		if t.isFirst(sel.X, g, at, 0) {
			return c13AtomFirstKids, true
		}
		return c13Atom{}, false
	}
}

func (t *c13Tree) depsOf(g c13Group) map[types.Object]bool {
	deps := map[types.Object]bool{types.Object(t.level): true}
	add := func(a c13Aff) {
		for x := range a.t {
			if x.obj != nil {
				deps[x.obj] = true
			}
		}
	}
	add(g.lo)
	if g.hi != nil {
		add(*g.hi)
	}
	return deps
}

func (s *c13) ruleTree() {
	k := s.k
	fl := k.flow("T.tree.lone", relRac, "", "gather")
	mb := k.fn("T.tree.lone", relRac, "", "makeBranch")
	if fl != nil && mb != nil {
		s.treeGather(fl, mb)
	}
	s.treeLayout()
}

func (s *c13) treeGather(fl *core.Flow, mb *types.Func) {
	c := s.c
	anchor := fl.F.Name()
	env := newC13Env(fl)
	t := &c13Tree{s: s, fl: fl, env: env}
	for i := 0; ; i++ {
		p := fl.Param(i)
		if p == nil {
			break
		}
		sl, ok := p.Type().Underlying().(*types.Slice)
		if !ok {
			continue
		}
		st, ok := sl.Elem().Underlying().(*types.Struct)
		if !ok {
			continue
		}
		for j := 0; j < st.NumFields(); j++ {
			if types.Identical(st.Field(j).Type(), p.Type()) && t.level == nil {
				t.level, t.children = p.(*types.Var), st.Field(j)
			}
		}
	}
	if t.level == nil || env.hasLit {
		c.Undecided("T.tree.lone", anchor, "gather takes the nodes of one level as a slice of a struct that has a field of that same slice type (the children)", "shape not recognised")
		return
	}
	t.lenLevel = affA(c13Atom{kind: 'l', obj: t.level})

	// the arity budget(s): integer locals that are only ever assigned constants
	budgets := map[types.Object]bool{}
	for o, ws := range env.writes {
		v, ok := o.(*types.Var)
		if !ok || v.IsField() || env.isParam(o) || !c13IsInt(v.Type()) {
			continue
		}
		all := len(ws) > 0
		for _, w := range ws {
			as, ok := w.(*ast.AssignStmt)
			if !ok || (as.Tok != token.ASSIGN && as.Tok != token.DEFINE) || len(as.Lhs) != len(as.Rhs) {
				all = false
				break
			}
			for i, l := range as.Lhs {
				if fl.Obj(l) == o {
					if _, isk := core.ConstInt64(env.info, as.Rhs[i]); !isk {
						all = false
					}
				}
			}
		}
		if all {
			budgets[o] = true
		}
	}
	// overflow: the edge implies (a sum of variables) > budget, e.g. `arity <= budget` false,
	// `arity+need > budget` true
	overflowEdge := func(cond ast.Expr, ci *core.CondInfo, taken bool) bool {
		return env.edgeImplies(cond, taken, cond, func(f c13Aff, op token.Token) bool {
			var b c13Atom
			nb := 0
			for x := range f.t {
				if x.kind == 'v' && budgets[x.obj] {
					b = x
					nb++
				}
			}
			if nb != 1 || len(f.t) < 2 || (f.t[b] != 1 && f.t[b] != -1) {
				return false
			}
			// T = (the other terms, which must all be variables with the sign opposite to the budget's) - budget
			T := affK(0)
			for x, cf := range f.t {
				if x == b {
					continue
				}
				if x.kind != 'v' || cf != -f.t[b] {
					return false
				}
				T = T.plus(affA(x), 1)
			}
			T = T.plus(affA(b), -1)
			r, ok := c13BoundsOn(f, op, T)
			return ok && r.hasLo && r.lo >= 1
		})
	}

	// ---- T.tree.lone ----
	var calls []*ast.CallExpr
	ast.Inspect(fl.F.Decl.Body, func(n ast.Node) bool {
		if call, ok := n.(*ast.CallExpr); ok && core.IsCallTo(env.info, call, mb) && len(call.Args) >= 1 {
			calls = append(calls, call)
		}
		return true
	})
	claim := "a branch node gets two or more children, or a single child that is a leaf: a branch whose only child is a branch has the same DPtrMax as that child and, written before it, a smaller COffset — neither quantity decreases from parent to child, which the specification's anti-loop rule forbids and ChunkReader rejects as \"invalid index node\" — Close() == nil but the file cannot be read back (65026 chunks)"
	shapeN := map[string]int{}
	nWhole, nFull, nGuarded := 0, 0, 0
	for _, call := range calls {
		at := env.nodeOf(call)
		g0, ok := t.groupOf(call.Args[0], at, 0)
		g := t.openAt(g0, at)
		if !ok || at == nil {
			c.Undecided("T.tree.lone", anchor+"[makeBranch]", claim, fmt.Sprintf("%s: the children argument `%s` is not the level, or a slice of it, with linear bounds", s.g.Pos(call.Pos()), core.Src(s.g.Fset, call.Args[0])))
			continue
		}
		shape := "remainder of the level"
		switch {
		case g.whole:
			shape = "whole level"
		case g.hi != nil:
			shape = "bounded group"
		}
		shapeN[shape]++
		a := fmt.Sprintf("%s[makeBranch(%s)]", anchor, shape)
		if shapeN[shape] > 1 {
			a = fmt.Sprintf("%s[makeBranch(%s)#%d]", anchor, shape, shapeN[shape])
		}
		if g.whole {
			nWhole++
			c.Pass("T.tree.lone", a, claim, 1, "the whole level becomes the root's children: a one-node level is the leaf level (every later level receives the remainder in addition to at least one full group; not re-derived here, see notes)")
			continue
		}
		kills := env.killsOf(t.depsOf(g))
		exit := func(n ast.Node) bool { return n == at }
		if g.hi != nil {
			esc, sites := c13FromEntryAndEach(fl, kills, core.Query{Exit: exit, Events: []core.Event{{Edge: overflowEdge}}})
			if len(esc) == 0 {
				nFull++
				c.Pass("T.tree.lone", a, claim, sites, "a group closed at an explicit upper bound is built only after the running arity exceeded the budget, i.e. it is full (budget/3 or more nodes; the budget constants are S5.budget.*)")
				continue
			}
		}
		t.withGroup(g)
		L, L0 := t.length(g), t.length(g0) // the same number when the explicit bound is the end of the level
		guard := func(cond ast.Expr, ci *core.CondInfo, taken bool) bool {
			return env.edgeImplies(cond, taken, cond, func(f c13Aff, op token.Token) bool {
				if r, ok := c13BoundsOn(f, op, L); ok && r.excludes(1) {
					return true
				}
				if r, ok := c13BoundsOn(f, op, L0); ok && r.excludes(1) {
					return true
				}
				if r, ok := c13BoundsOn(f, op, affA(c13AtomFirstKids)); ok && r.atMost(0) {
					return true
				}
				return false
			})
		}
		esc, sites := c13FromEntryAndEach(fl, kills, core.Query{Exit: exit, Events: []core.Event{{Edge: guard}}})
		env.special = nil
		if len(esc) > 0 {
			c.Fail("T.tree.lone", a, claim, sites, fmt.Sprintf("in %s: makeBranch(%s) at %s can be reached with exactly one node in the group (length %s) and nothing on the path establishes that this node has no children:\n%s",
				fl.F.Name(), core.Src(s.g.Fset, call.Args[0]), s.g.Pos(call.Pos()), L.String(), c13EscText(esc)))
			continue
		}
		nGuarded++
		c.Pass("T.tree.lone", a, claim, sites, fmt.Sprintf("every path (from entry and from each write to %s) crosses an edge implying length != 1 or len(first.children) == 0", L.String()))
	}
	c.Floor("T.tree.lone", "makeBranch calls in gather (whole level / full group / guarded remainder)", nWhole+nFull+nGuarded, 3)
	c.Floor("T.tree.lone", "makeBranch calls on a remainder that need, and have, the lone-branch guard", nGuarded, 1)

	// ---- T.tree.keep ----
	var next *types.Var
	var swaps []ast.Node
	for _, w := range env.writes[t.level] {
		as, ok := w.(*ast.AssignStmt)
		if !ok || len(as.Lhs) != len(as.Rhs) || as.Tok != token.ASSIGN {
			continue
		}
		for i, l := range as.Lhs {
			if fl.Obj(l) != types.Object(t.level) {
				continue
			}
			if v, ok := fl.Obj(as.Rhs[i]).(*types.Var); ok && !v.IsField() && v != t.level && types.Identical(v.Type(), t.level.Type()) {
				next = v
				swaps = append(swaps, w)
			}
		}
	}
	claimK := "before a round ends (the next level replaces the current one) the remainder of the level — the nodes after the last full group — is appended to the next level, as a branch over them or, when it is a single node, as that node: otherwise the chunks below them disappear from the index and the decompressed file is silently shorter"
	if next == nil || len(swaps) != len(env.writes[t.level]) {
		c.Undecided("T.tree.keep", anchor, claimK, "the statement that replaces the level by the next level (`nodes = newNodes`) was not recognised")
		return
	}
	isSwap := func(n ast.Node) bool {
		for _, w := range swaps {
			if n == w {
				return true
			}
		}
		return false
	}
	loDeps := map[types.Object]bool{}
	var promoted []ast.Node // appends of a single first element: need length <= 1 on the path
	var promotedG []c13Group
	var promotedG0 []c13Group
	tailMemo := map[ast.Node]bool{}
	var tailAppend1 func(n ast.Node) bool
	tailAppend := func(n ast.Node) bool {
		if _, isAssign := n.(*ast.AssignStmt); !isAssign {
			return false
		}
		r, ok := tailMemo[n]
		if !ok {
			r = tailAppend1(n)
			tailMemo[n] = r
		}
		return r
	}
	tailAppend1 = func(n ast.Node) bool {
		as, ok := n.(*ast.AssignStmt)
		if !ok || len(as.Lhs) != len(as.Rhs) {
			return false
		}
		for i, l := range as.Lhs {
			if fl.Obj(l) != types.Object(next) {
				continue
			}
			call, ok := ast.Unparen(as.Rhs[i]).(*ast.CallExpr)
			if !ok || len(call.Args) < 2 {
				continue
			}
			id, ok := ast.Unparen(call.Fun).(*ast.Ident)
			if !ok {
				continue
			}
			if b, isB := env.info.Uses[id].(*types.Builtin); !isB || b.Name() != "append" || fl.Obj(call.Args[0]) != types.Object(next) {
				continue
			}
			if call.Ellipsis.IsValid() {
				// append(next, remainder...): the nodes of the remainder themselves
				if g, ok := t.groupOf(call.Args[len(call.Args)-1], n, 0); ok && t.openAt(g, n).hi == nil && len(call.Args) == 2 {
					for o := range t.depsOf(g) {
						loDeps[o] = true
					}
					return true
				}
				continue
			}
			for _, v := range call.Args[1:] {
				if mc, ok := ast.Unparen(v).(*ast.CallExpr); ok && core.IsCallTo(env.info, mc, mb) && len(mc.Args) >= 1 {
					if g, ok := t.groupOf(mc.Args[0], n, 0); ok && t.openAt(g, n).hi == nil {
						for o := range t.depsOf(g) {
							loDeps[o] = true
						}
						return true
					}
					continue
				}
				// a single element: the first one of an open-ended group
				if ix, ok := ast.Unparen(v).(*ast.IndexExpr); ok {
					if in, ok := t.groupOf(ix.X, n, 0); ok && t.openAt(in, n).hi == nil {
						if idx, ok := env.aff(ix.Index, n); ok {
							g := c13Group{lo: in.lo.plus(idx, 1)}
							g0 := c13Group{lo: g.lo, hi: in.hi}
							for o := range t.depsOf(g) {
								loDeps[o] = true
							}
							known := false
							for _, p := range promoted {
								known = known || p == n
							}
							if !known {
								promoted = append(promoted, n)
								promotedG = append(promotedG, g)
								promotedG0 = append(promotedG0, g0)
							}
							return true
						}
					}
				}
			}
		}
		return false
	}
	nTail := 0
	for _, n := range env.nodes {
		if tailAppend(n) {
			nTail++
		}
	}
	delete(loDeps, types.Object(t.level))
	kills := env.killsOf(loDeps)
	esc, sites := c13FromEntryAndEach(fl, kills, core.Query{Exit: isSwap, Events: []core.Event{{Node: tailAppend}}})
	if len(esc) > 0 {
		c.Fail("T.tree.keep", anchor+"[round end]", claimK, sites, fmt.Sprintf("in %s: the level is replaced without the remainder having been appended to `%s`:\n%s", fl.F.Name(), next.Name(), c13EscText(esc)))
	} else {
		c.Pass("T.tree.keep", anchor+"[round end]", claimK, sites, fmt.Sprintf("%d appends of the remainder; every path to the level swap passes one", nTail))
	}
	for i, n := range promoted {
		g := promotedG[i]
		L, L0 := t.length(g), t.length(promotedG0[i])
		one := func(cond ast.Expr, ci *core.CondInfo, taken bool) bool {
			return env.edgeImplies(cond, taken, cond, func(f c13Aff, op token.Token) bool {
				if r, ok := c13BoundsOn(f, op, L); ok && r.atMost(1) {
					return true
				}
				r, ok := c13BoundsOn(f, op, L0)
				return ok && r.atMost(1)
			})
		}
		esc, sites := c13FromEntryAndEach(fl, env.killsOf(t.depsOf(g)), core.Query{Exit: func(m ast.Node) bool { return m == n }, Events: []core.Event{{Edge: one}}})
		c.Check(len(esc) == 0, "T.tree.keep", anchor+"[promoted node]", "a remainder is carried over as its first node only when it consists of that one node", sites,
			fmt.Sprintf("%s: `%s` is reached without an edge implying %s <= 1:\n%s", s.g.Pos(n.Pos()), core.Src(s.g.Fset, n), L.String(), c13EscText(esc)))
	}
	c.Floor("T.tree.keep", "appends of a level's remainder to the next level (branch over it / promoted single node)", nTail, 2)
}

// ---------------------------------------------------------------------------
// T.tree.layout
// ---------------------------------------------------------------------------

type c13Sched struct {
	name     string
	pre      int    // recursive descents before the node's own slot
	post     int    // … after it
	argClass string // what the recursion passes for the placement flag: "before: X; after: Y"
	ok       bool
}

// boolOf: leaving cond along this edge fixes the bool parameter p: +1 true, -1 false, 0 unknown.
func c13BoolOf(env *c13Env, cond ast.Expr, taken bool, p types.Object, at ast.Node, depth int) int {
	if depth > 6 {
		return 0
	}
	sign := func(b bool) int {
		if b {
			return 1
		}
		return -1
	}
	switch x := ast.Unparen(cond).(type) {
	case *ast.Ident:
		o := env.fl.Obj(x)
		if o == p {
			return sign(taken)
		}
		if d, ok := env.plain[o]; ok && env.fresh(o, at) {
			return c13BoolOf(env, d.rhs, taken, p, d.stmt, depth+1)
		}
	case *ast.UnaryExpr:
		if x.Op == token.NOT {
			return c13BoolOf(env, x.X, !taken, p, at, depth+1)
		}
	case *ast.BinaryExpr:
		if x.Op != token.EQL && x.Op != token.NEQ {
			return 0
		}
		for _, pair := range [][2]ast.Expr{{x.X, x.Y}, {x.Y, x.X}} {
			tv, ok := env.info.Types[pair[1]]
			if !ok || tv.Value == nil || tv.Value.Kind() != constant.Bool {
				continue
			}
			want := tv.Value.ExactString() == "true"
			if x.Op == token.NEQ {
				want = !want
			}
			// (pair[0] == want) has value `taken`
			return c13BoolOf(env, pair[0], taken == want, p, at, depth+1)
		}
	}
	return 0
}

func (s *c13) treeSchedule(rule, recv, name string) (sc c13Sched) {
	c, k := s.c, s.k
	fl := k.flow(rule, relRac, recv, name)
	if fl == nil {
		return
	}
	sc.name = fl.F.Name()
	env := newC13Env(fl)
	info := env.info
	claim := "the recursive descent into the child branches comes before the node's own slot exactly when the placement flag (root of an index at the end of the file) is set, and after it otherwise — in the function that assigns the COffsets (calcEncodedSize) and in the one that writes the nodes (writeIndex) alike; if the two disagree every CPtr below the first difference points at the wrong node"
	// the placement flag: the only bool parameter; the node: receiver or parameter of pointer-to-struct type with a self-typed slice field
	var flag types.Object
	nflag := 0
	var node types.Object
	var kids *types.Var
	cands := []types.Object{}
	if r := fl.Recv(); r != nil {
		cands = append(cands, r)
	}
	for i := 0; ; i++ {
		p := fl.Param(i)
		if p == nil {
			break
		}
		cands = append(cands, p)
		if bt, ok := p.Type().Underlying().(*types.Basic); ok && bt.Kind() == types.Bool {
			flag = p
			nflag++
		}
	}
	for _, o := range cands {
		pt, ok := o.Type().Underlying().(*types.Pointer)
		if !ok {
			continue
		}
		st, ok := pt.Elem().Underlying().(*types.Struct)
		if !ok {
			continue
		}
		for j := 0; j < st.NumFields(); j++ {
			if sl, ok := st.Field(j).Type().Underlying().(*types.Slice); ok && types.Identical(sl.Elem(), pt.Elem()) && node == nil {
				node, kids = o, st.Field(j)
			}
		}
	}
	if nflag != 1 || node == nil || env.hasLit {
		c.Undecided(rule, sc.name, claim, "expected one bool parameter and one node (pointer to a struct with a slice of itself)")
		return
	}
	isNode := func(e ast.Expr) bool {
		e = ast.Unparen(e)
		if st, ok := e.(*ast.StarExpr); ok {
			e = ast.Unparen(st.X)
		}
		return fl.Obj(e) == node
	}
	// the node's own slot: a store to a field of the node, or the I/O call that writes it
	self := func(n ast.Node) bool {
		if as, ok := n.(*ast.AssignStmt); ok {
			for _, l := range as.Lhs {
				if sel, ok := ast.Unparen(l).(*ast.SelectorExpr); ok && isNode(sel.X) {
					return true
				}
			}
		}
		return core.AnyCall(n, func(call *ast.CallExpr) bool {
			cal := core.Callee(info, call)
			return cal != nil && c13PrimaryIO(cal)
		})
	}
	isRec := func(call *ast.CallExpr) bool { return core.IsCallTo(info, call, fl.F.Obj) }
	rec := func(n ast.Node) bool { return core.AnyCall(n, isRec) }
	nSelf := 0
	var recNodes []ast.Node
	for _, n := range env.nodes {
		if self(n) {
			nSelf++
		}
		if rec(n) {
			recNodes = append(recNodes, n)
		}
	}
	if nSelf != 1 || len(recNodes) == 0 {
		c.Undecided(rule, sc.name, claim, fmt.Sprintf("%d statements that place/emit the node itself (want 1), %d recursive calls", nSelf, len(recNodes)))
		return
	}
	flagEdge := func(want int) func(ast.Expr, *core.CondInfo, bool) bool {
		return func(cond ast.Expr, ci *core.CondInfo, taken bool) bool {
			return c13BoolOf(env, cond, taken, flag, cond, 0) == want
		}
	}
	ok1 := k.mustPass(rule, sc.name+"[descent before the node]", claim, fl, core.Query{
		Exit: rec, Events: []core.Event{{Node: self}, {Edge: flagEdge(+1)}}})
	ok2 := s.passFromEach(rule, sc.name+"[descent after the node]", claim, fl, self, core.Query{
		Exit: rec, Events: []core.Event{{Edge: flagEdge(-1)}}}, true)
	for _, r := range recNodes {
		r := r
		if env.reaches(r, self, nil) {
			sc.pre++
		}
		for _, n := range env.nodes {
			if self(n) && env.reaches(n, func(m ast.Node) bool { return m == r }, nil) {
				sc.post++
			}
		}
	}
	// arguments of the recursion: the flag position, and the node (an element of node.children, by index)
	flagIdx := -1
	for i := 0; ; i++ {
		p := fl.Param(i)
		if p == nil {
			break
		}
		if p == flag {
			flagIdx = i
		}
	}
	classes := map[string]map[string]bool{"before": {}, "after": {}}
	var selfNode ast.Node
	for _, n := range env.nodes {
		if self(n) {
			selfNode = n
		}
	}
	badNode := []string{}
	nCalls := 0
	ast.Inspect(fl.F.Decl.Body, func(n ast.Node) bool {
		call, ok := n.(*ast.CallExpr)
		if !ok || !isRec(call) {
			return true
		}
		nCalls++
		cls := "other"
		if flagIdx < len(call.Args) {
			a := ast.Unparen(call.Args[flagIdx])
			if tv, ok := info.Types[a]; ok && tv.Value != nil {
				cls = "constant " + tv.Value.ExactString()
			} else if fl.Obj(a) == flag {
				cls = "the flag itself"
			} else {
				cls = "other: " + core.Src(s.g.Fset, a)
			}
		}
		// phase of this call: before the node's own slot (its CFG node reaches the slot) or after it
		if cn := env.nodeOf(call); cn != nil {
			if env.reaches(cn, func(m ast.Node) bool { return m == selfNode }, nil) {
				classes["before"][cls] = true
			} else {
				classes["after"][cls] = true
			}
		}
		// the node operand: receiver of a method value, or the pointer argument
		var operand ast.Expr
		if node == fl.Recv() {
			operand = core.RecvOf(call)
		} else {
			for i := 0; ; i++ {
				p := fl.Param(i)
				if p == nil {
					break
				}
				if p == node && i < len(call.Args) {
					operand = call.Args[i]
				}
			}
		}
		okNode := false
		if operand != nil {
			e := ast.Unparen(operand)
			if u, ok := e.(*ast.UnaryExpr); ok && u.Op == token.AND {
				e = ast.Unparen(u.X)
			}
			if ix, ok := e.(*ast.IndexExpr); ok {
				if sel, ok := ast.Unparen(ix.X).(*ast.SelectorExpr); ok && info.Uses[sel.Sel] == types.Object(kids) && isNode(sel.X) {
					okNode = true
				}
			}
		}
		if !okNode {
			badNode = append(badNode, s.g.Pos(call.Pos()))
		}
		return true
	})
	var phases []string
	for _, ph := range []string{"before", "after"} {
		var cl []string
		for x := range classes[ph] {
			cl = append(cl, x)
		}
		sort.Strings(cl)
		if len(cl) != 1 {
			phases = append(phases, ph+": mixed ("+strings.Join(cl, " / ")+")")
		} else {
			phases = append(phases, ph+": "+cl[0])
		}
	}
	sc.argClass = strings.Join(phases, "; ")
	c.Check(len(badNode) == 0, rule, sc.name+"[descent operand]", "the recursion descends into the elements of node.children themselves (by index: calcEncodedSize stores the COffset into the element)", nCalls, strings.Join(badNode, "; "))
	sc.ok = ok1 && ok2 && len(badNode) == 0
	return
}

func (s *c13) treeLayout() {
	c := s.c
	a := s.treeSchedule("T.tree.layout", "wNode", "calcEncodedSize")
	b := s.treeSchedule("T.tree.layout", "nodeWriter", "writeIndex")
	if a.name == "" || b.name == "" {
		return
	}
	claim := "calcEncodedSize and writeIndex follow the same schedule: same number of descents before / after the node's slot and the same placement flag handed to the sub-branches, so that the COffset computed for a node is the position at which it is written (two-level trees are covered by the package's tests; a difference in what is handed down only shows in trees of three or more levels, i.e. more than 65025 chunks)"
	same := a.pre == b.pre && a.post == b.post && a.pre >= 1 && a.post >= 1 && a.argClass == b.argClass && !strings.Contains(a.argClass, "mixed") && !strings.Contains(a.argClass, "other")
	c.Check(same, "T.tree.layout", relRac+"[calcEncodedSize ~ writeIndex]", claim, a.pre+a.post+b.pre+b.post,
		fmt.Sprintf("%s: %d before / %d after, passes %s; %s: %d before / %d after, passes %s", a.name, a.pre, a.post, a.argClass, b.name, b.pre, b.post, b.argClass))
	c.Floor("T.tree.layout", "recursive descents in calcEncodedSize and writeIndex", a.pre+a.post+b.pre+b.post, 4)
}
