package main

// C02, rule M.simplify: every algebraic rewrite of check.simplify is an identity
// over the integers. simplify is applied to each proven assert before it is
// stored as a fact and to the right-hand side that `x += c` / `x -= c` writes
// into a live fact, so a rewrite that is not an identity turns a true fact into a
// false one (independently seeded change C02-5: a `(p - q) + p → q` case copied
// from the `(p + q) - p → q` one).
//
// The rule interprets the function's own syntax: inside `case t.IDXBinaryPlus` /
// `case t.IDXBinaryMinus` of the `switch op`, every `return <expr>, nil` whose
// result is not the argument itself is collected with the conditions on its
// path: destructurings `xOp, xL, xR := parseBinaryOp(V)` guarded by
// `xOp == t.IDXBinary{Plus,Minus}` (V = xL ± xR) and equalities `A.Eq(B)`.
// With n = lhs op rhs, the returned term must equal n as a linear form under
// those equations. Shapes outside this grammar are undecided.

import (
	"fmt"
	"go/ast"
	"go/token"
	"go/types"
	"sort"
	"strings"

	"wv/core"
)

type c02Lin struct {
	k    int64
	coef map[types.Object]int64
}

func c02LinVar(o types.Object) c02Lin { return c02Lin{coef: map[types.Object]int64{o: 1}} }
func (a c02Lin) add(b c02Lin, s int64) c02Lin {
	r := c02Lin{k: a.k + s*b.k, coef: map[types.Object]int64{}}
	for o, c := range a.coef {
		r.coef[o] += c
	}
	for o, c := range b.coef {
		r.coef[o] += s * c
	}
	for o, c := range r.coef {
		if c == 0 {
			delete(r.coef, o)
		}
	}
	return r
}
func (a c02Lin) subst(o types.Object, b c02Lin) c02Lin {
	c, ok := a.coef[o]
	if !ok {
		return a
	}
	r := c02Lin{k: a.k, coef: map[types.Object]int64{}}
	for p, q := range a.coef {
		if p != o {
			r.coef[p] = q
		}
	}
	return r.add(b, c)
}
func (a c02Lin) String() string {
	var parts []string
	for o, c := range a.coef {
		parts = append(parts, fmt.Sprintf("%+d·%s", c, o.Name()))
	}
	sort.Strings(parts)
	if a.k != 0 || len(parts) == 0 {
		parts = append(parts, fmt.Sprintf("%+d", a.k))
	}
	return strings.Join(parts, " ")
}
func (a c02Lin) eq(b c02Lin) bool { d := a.add(b, -1); return d.k == 0 && len(d.coef) == 0 }

func runC02Simplify(k *gctx) {
	c := k.c
	fl := k.flow("M.simplify", relCheck, "", "simplify")
	if fl == nil {
		return
	}
	info := fl.F.Info()
	plus := k.obj("anchors", "lang/token", "IDXBinaryPlus")
	minus := k.obj("anchors", "lang/token", "IDXBinaryMinus")
	zero := k.obj("anchors", relCheck, "zeroExpr")
	parseBin := k.fn("anchors", relCheck, "", "parseBinaryOp")
	nParam := fl.Param(1)
	// the top-level destructuring of n
	var opVar, lhsVar, rhsVar types.Object
	type destr struct {
		op, l, r, of types.Object
	}
	var destrs []destr
	ast.Inspect(fl.F.Decl.Body, func(m ast.Node) bool {
		as, ok := m.(*ast.AssignStmt)
		if !ok || len(as.Lhs) != 3 || len(as.Rhs) != 1 {
			return true
		}
		call, ok := ast.Unparen(as.Rhs[0]).(*ast.CallExpr)
		if !ok || !core.IsCallTo(info, call, parseBin) || len(call.Args) != 1 {
			return true
		}
		d := destr{fl.Obj(as.Lhs[0]), fl.Obj(as.Lhs[1]), fl.Obj(as.Lhs[2]), fl.Obj(call.Args[0])}
		if d.of == nParam {
			opVar, lhsVar, rhsVar = d.op, d.l, d.r
		} else {
			destrs = append(destrs, d)
		}
		return true
	})
	if opVar == nil || lhsVar == nil || rhsVar == nil {
		c.Undecided("M.simplify", fl.F.Name(), "simplify destructures its argument with parseBinaryOp", "not found")
		return
	}
	// the switch on op
	var sw *ast.SwitchStmt
	ast.Inspect(fl.F.Decl.Body, func(m ast.Node) bool {
		if s, ok := m.(*ast.SwitchStmt); ok && s.Tag != nil && fl.Obj(s.Tag) == opVar && sw == nil {
			sw = s
		}
		return true
	})
	if sw == nil {
		c.Undecided("M.simplify", fl.F.Name(), "simplify switches on the operator", "no `switch op`")
		return
	}
	nRules := 0
	for _, cc := range sw.Body.List {
		cl := cc.(*ast.CaseClause)
		var sign int64
		for _, e := range cl.List {
			switch fl.Obj(e) {
			case plus:
				sign = 1
			case minus:
				sign = -1
			}
		}
		if sign == 0 || len(cl.List) != 1 {
			continue
		}
		opName := map[int64]string{1: "+", -1: "-"}[sign]
		// walk the clause with a stack of enclosing if-conditions (true branches only)
		var walk func(list []ast.Stmt, conds []ast.Expr, inits []ast.Stmt)
		walk = func(list []ast.Stmt, conds []ast.Expr, inits []ast.Stmt) {
			for _, st := range list {
				switch s := st.(type) {
				case *ast.IfStmt:
					in := inits
					if s.Init != nil {
						in = append(append([]ast.Stmt{}, inits...), s.Init)
					}
					walk(s.Body.List, append(append([]ast.Expr{}, conds...), s.Cond), in)
					if s.Else != nil {
						// else branches carry the negated condition: no equations from them
						if eb, ok := s.Else.(*ast.BlockStmt); ok {
							walk(eb.List, conds, in)
						} else if ei, ok := s.Else.(*ast.IfStmt); ok {
							walk([]ast.Stmt{ei}, conds, in)
						}
					}
				case *ast.ReturnStmt:
					if len(s.Results) != 2 || !core.IsNilIdent(info, s.Results[1]) {
						continue
					}
					res := fl.Obj(s.Results[0])
					if res == nParam {
						continue // unchanged
					}
					nRules++
					anchor := fmt.Sprintf("%s[case %s: return %s]", fl.F.Name(), opName, core.Src(k.g.Fset, s.Results[0]))
					claim := "this rewrite of `lhs " + opName + " rhs` is an identity over the integers under the conditions on its path (simplify's result replaces a proven assert or a fact's right-hand side, so any other rewrite makes the checker remember something false)"
					if res == nil {
						c.Undecided("M.simplify", anchor, claim, k.g.Pos(s.Pos())+": the returned expression is not a variable of the pattern")
						continue
					}
					// equations
					nLF := c02LinVar(lhsVar).add(c02LinVar(rhsVar), sign)
					var rLF c02Lin
					if res == zero {
						rLF = c02Lin{coef: map[types.Object]int64{}}
					} else {
						rLF = c02LinVar(res)
					}
					ok := true
					why := ""
					// destructurings in scope: those whose op variable is tested in conds
					for _, cnd := range conds {
						for _, at := range flattenAnd(cnd) {
							at = ast.Unparen(at)
							if be, isB := at.(*ast.BinaryExpr); isB && be.Op == token.EQL {
								for _, d := range destrs {
									var sg int64
									if fl.Obj(be.X) == d.op {
										switch fl.Obj(be.Y) {
										case plus:
											sg = 1
										case minus:
											sg = -1
										}
									}
									if sg != 0 {
										def := c02LinVar(d.l).add(c02LinVar(d.r), sg)
										nLF, rLF = nLF.subst(d.of, def), rLF.subst(d.of, def)
									}
								}
								continue
							}
							if call, isC := at.(*ast.CallExpr); isC && nameIs(fl, call, "Eq") && len(call.Args) == 1 {
								a, b := fl.Obj(core.RecvOf(call)), fl.Obj(call.Args[0])
								if a == nil || b == nil {
									ok, why = false, "an Eq between non-variables"
									continue
								}
								// replace b by a everywhere
								nLF, rLF = nLF.subst(b, c02LinVar(a)), rLF.subst(b, c02LinVar(a))
								continue
							}
							// any other condition is ignored (it only restricts when the rewrite applies)
						}
					}
					// destructured variables must be expanded even when the Eq came first: re-apply definitions
					for i := 0; i < 3; i++ {
						for _, cnd := range conds {
							for _, at := range flattenAnd(cnd) {
								if be, isB := ast.Unparen(at).(*ast.BinaryExpr); isB && be.Op == token.EQL {
									for _, d := range destrs {
										var sg int64
										if fl.Obj(be.X) == d.op {
											switch fl.Obj(be.Y) {
											case plus:
												sg = 1
											case minus:
												sg = -1
											}
										}
										if sg != 0 {
											def := c02LinVar(d.l).add(c02LinVar(d.r), sg)
											nLF, rLF = nLF.subst(d.of, def), rLF.subst(d.of, def)
										}
									}
								}
							}
						}
					}
					if !ok {
						c.Undecided("M.simplify", anchor, claim, k.g.Pos(s.Pos())+": "+why)
						continue
					}
					c.Check(nLF.eq(rLF), "M.simplify", anchor, claim, 1, fmt.Sprintf("%s: under the path conditions the expression is %s but the rewrite returns %s", k.g.Pos(s.Pos()), nLF, rLF))
				case *ast.BlockStmt:
					walk(s.List, conds, inits)
				}
			}
		}
		walk(cl.Body, nil, nil)
	}
	c.Floor("M.simplify", "algebraic rewrites in simplify's + and - cases", nRules, 3)
}
