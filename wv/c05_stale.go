package main

// G10.stale (C05, also evaluated under C08): generated code mirrors a buffer's
// moving index (`meta.wi` of an io_writer, `meta.ri` of an io_reader) in a
// derived pointer iop_<buf> and writes it back only at calls and exits. While
// iop_<buf> is live the field is therefore STALE. It may be read only
//   (a) to (re)load the derived pointers: `iop_X = X->data.ptr + X->meta.F`,
//       `ioN_X = ioN_X + X->meta.F` — at function entry and right after a call
//       that received X (the callee wrote the field);
//   (b) right after it was written back in the same statement list:
//       `X->meta.F = ((size_t)(iop_X - X->data.ptr));` with no statement in
//       between that can move iop_X.
// Any other read computes from where the buffer stood at the last
// synchronisation, not from where it stands now: the result then depends on how
// the input was split into calls (repaired defect 6c68e73: io_forget_history
// rebased the writer at a stale meta.wi, so every BCJ-filtered .xz file failed
// with "#lzma: bad distance" when decoded in more than one call).

import (
	"fmt"
	"os"
	"regexp"
	"strings"

	"wv/core"
)

var reIop = regexp.MustCompile(`^iop_([A-Za-z0-9_]+)$`)

type staleStats struct{ reads, funcs int }

func checkStaleIndex(c *core.Ctx, fn *c08fn, st *staleStats) {
	// buffers with a derived pointer in this function, and which index it mirrors
	mirror := map[string]string{} // buffer name (a_dst, v_r, …) -> "wi" | "ri"
	toks := fn.cfn.Body
	for i := 0; i+8 < len(toks); i++ {
		// X -> meta . F = ( ( size_t ) ( iop_X - X -> data . ptr ) )
		if toks[i+1].Text == "->" && toks[i+2].Text == "meta" && toks[i+3].Text == "." && (toks[i+4].Text == "wi" || toks[i+4].Text == "ri") && toks[i+5].Text == "=" {
			x := toks[i].Text
			for j := i + 6; j < len(toks) && j < i+14; j++ {
				if m := reIop.FindStringSubmatch(toks[j].Text); m != nil && m[1] == x {
					mirror[x] = toks[i+4].Text
				}
			}
		}
	}
	if len(mirror) == 0 {
		return
	}
	var bad []string
	n := 0
	isWriteBack := func(s *core.CStmt, x, f string) bool {
		t := s.Toks
		return s.Kind == "expr" && len(t) > 6 && t[0].Text == x && t[1].Text == "->" && t[2].Text == "meta" && t[4].Text == f && t[5].Text == "=" && strings.Contains(core.CText(t[6:]), "iop_"+x+" - "+x+" -> data . ptr")
	}
	readsField := func(t []core.CTok, from int, x, f string) []int {
		var out []int
		for i := from; i+4 < len(t); i++ {
			if t[i].Text == x && t[i+1].Text == "->" && t[i+2].Text == "meta" && t[i+3].Text == "." && t[i+4].Text == f {
				// not an assignment target
				if i+5 < len(t) && t[i+5].Text == "=" && (i+6 >= len(t) || t[i+6].Text != "=") {
					continue
				}
				out = append(out, i)
			}
		}
		return out
	}
	isLoad := func(s *core.CStmt, x string) bool {
		// iop_X = …   or   ioN_X = …
		t := s.Toks
		if s.Kind != "expr" || len(t) < 3 || t[1].Text != "=" {
			return false
		}
		return t[0].Text == "iop_"+x || t[0].Text == "io0_"+x || t[0].Text == "io1_"+x || t[0].Text == "io2_"+x
	}
	var walk func(list []*core.CStmt, fresh map[string]bool)
	walk = func(list []*core.CStmt, fresh map[string]bool) {
		// fresh[x]: the mirrored field of x was written back by the previous statement(s) of this list
		fr := map[string]bool{}
		for k, v := range fresh {
			fr[k] = v
		}
		for _, s := range list {
			for x, f := range mirror {
				var rd []int
				switch s.Kind {
				case "expr", "return", "if", "while", "switch", "for", "do":
					rd = readsField(s.Toks, 0, x, f)
				}
				if len(rd) > 0 {
					n += len(rd)
					if !(isLoad(s, x) || fr[x]) {
						bad = append(bad, fmt.Sprintf("line %d: `%s` reads %s->meta.%s while iop_%s is live and the field has not just been written back", s.Line, s.Text(), x, f, x))
					}
				}
			}
			// update freshness
			for x, f := range mirror {
				switch {
				case isWriteBack(s, x, f):
					fr[x] = true
				case s.Kind == "expr" && (strings.Contains(s.Text(), "iop_"+x) || strings.Contains(s.Text(), "& iop_"+x)):
					// anything that mentions iop_X in a non-declarative way may move it
					if !(len(s.Toks) > 2 && (s.Toks[0].Text == "size_t" || s.Toks[0].Text == "uint64_t")) {
						fr[x] = false
					}
				case s.Kind != "expr":
					// control statements: handled by recursion; conservatively drop freshness afterwards
				}
			}
			if s.Kind == "if" || s.Kind == "block" {
				// an `if (X) { X->meta.F = …write-back…; }` guard keeps the freshness it establishes for
				// the statements nested in the same guard only; recurse with the current state
				walk(s.Body, fr)
				walk(s.Else, fr)
			} else {
				walk(s.Body, map[string]bool{})
				walk(s.Else, map[string]bool{})
			}
			if s.Kind != "expr" {
				for x := range mirror {
					fr[x] = false
				}
			}
		}
	}
	walk(fn.stmts, map[string]bool{})
	if n == 0 {
		return
	}
	st.reads += n
	st.funcs++
	c.Check(len(bad) == 0, "G10.stale", "generated C "+fn.cname,
		"while a derived pointer iop_<buf> is live, the index it mirrors (<buf>->meta.wi of a writer, meta.ri of a reader) is read only to (re)load the derived pointers or right after it was written back; any other read takes the buffer's position at the last synchronisation, so the result depends on how the input was split into calls",
		n, strings.Join(bad, "\n"))
}

// runStaleIndex evaluates G10.stale over the given packages (C05's own loop
// only visits coroutines; this visits every generated function).
func runStaleIndex(c *core.Ctx, pkgs []*WPkg) {
	st := staleStats{}
	for _, p := range pkgs {
		src, err := os.ReadFile(p.CPath)
		if err != nil {
			c.Infra("%v", err)
		}
		cf := core.CParseFile(p.CPath, string(src))
		for _, f := range p.Funcs {
			cname := p.funcCName(f)
			cfn := cf.ByNam[cname]
			if cfn == nil {
				continue
			}
			stmts, perr := core.CParseBody(cfn.Body)
			if perr != nil {
				continue // reported by the owning rules
			}
			checkStaleIndex(c, &c08fn{p, f, cname, cfn, stmts}, &st)
		}
	}
	c.Floor("G10", "reads of a mirrored buffer index in generated C", st.reads, 200)
}
