package main

import (
	"fmt"
	"go/ast"
	"go/token"
	"go/types"
	"sort"
	"strings"

	"wv/core"
)

// appendTo: stmt is `dst = append(dst, …)`; returns the call.
func appendTo(fl *core.Flow, s ast.Stmt, dst types.Object) *ast.CallExpr {
	as, ok := s.(*ast.AssignStmt)
	if !ok || as.Tok != token.ASSIGN || len(as.Lhs) != 1 || len(as.Rhs) != 1 || fl.Obj(as.Lhs[0]) != dst {
		return nil
	}
	call, ok := ast.Unparen(as.Rhs[0]).(*ast.CallExpr)
	if !ok || len(call.Args) < 2 || fl.Obj(call.Args[0]) != dst {
		return nil
	}
	id, ok := ast.Unparen(call.Fun).(*ast.Ident)
	if !ok {
		return nil
	}
	if b, ok := fl.F.Info().Uses[id].(*types.Builtin); !ok || b.Name() != "append" {
		return nil
	}
	return call
}

func be16m1hi(v string) string {
	return "conv:uint8(" + mk("shr", mk("sub", "len("+v+")", "#1"), "#8") + ")"
}
func be16m1lo(v string) string { return "conv:uint8(" + mk("sub", "len("+v+")", "#1") + ")" }
func u32at(i int) string       { return fmt.Sprintf("conv:uint32(idx(SRC,#%d))", i) }
func be16p1(i int) string {
	return mk("add", mk("shl", u32at(i), "#8"), u32at(i+1), "#1")
}

// K3.chunk: LZMA2 chunk headers, encoder against decoder.
func (r *c17) xzChunks() {
	c, g := r.c, r.k.g
	ef := r.k.flow("K3.chunk", relLzma, "", "encodeXz")
	df := r.k.flow("K3.chunk", relLzma, "", "decodeXz")
	hdr, okh := constString(g.LookupObj(relLzma, "lzmaHeader5"))
	if ef == nil || df == nil || !okh || len(hdr) == 0 {
		return
	}
	props := fmt.Sprintf("#%d", hdr[0])
	ea, da := ef.F.Name(), df.F.Name()
	both := ea + " ~ " + da
	encRaw, decRaw := g.LookupObj(relLzma, "encodeRaw"), g.LookupObj(relLzma, "decodeRaw")

	// ---- encoder: header append followed by payload append
	type encChunk struct {
		ctl  string
		args []string
		pos  token.Pos
	}
	var encs []encChunk
	var chunkLoop *ast.ForStmt
	edst := ef.Param(0)
	ast.Inspect(ef.F.Decl.Body, func(n ast.Node) bool {
		b, ok := n.(*ast.BlockStmt)
		if !ok {
			return true
		}
		for i := 0; i+1 < len(b.List); i++ {
			h, p := appendTo(ef, b.List[i], edst), appendTo(ef, b.List[i+1], edst)
			if h == nil || p == nil || h.Ellipsis.IsValid() || !p.Ellipsis.IsValid() || len(p.Args) != 2 || len(h.Args) < 3 {
				continue
			}
			pay, _ := ef.Obj(p.Args[1]).(*types.Var)
			if pay == nil {
				continue
			}
			x := newSymx(ef.F.Info())
			x.names[edst], x.names[pay] = "DST", "P"
			// a second variable whose length is written: the uncompressed source of P
			var other *types.Var
			for _, a := range h.Args[1:] {
				ast.Inspect(a, func(m ast.Node) bool {
					if id, ok := m.(*ast.Ident); ok {
						if v, ok := ef.F.Info().Uses[id].(*types.Var); ok && v != pay && !v.IsField() && v.Parent() != v.Pkg().Scope() {
							other = v
						}
					}
					return true
				})
			}
			if other != nil {
				x.names[other] = "U"
				// P must be produced by encodeRaw(_, U)
				isRaw := false
				ast.Inspect(ef.F.Decl.Body, func(m ast.Node) bool {
					as, ok := m.(*ast.AssignStmt)
					if ok && len(as.Lhs) == 1 && len(as.Rhs) == 1 && ef.Obj(as.Lhs[0]) == types.Object(pay) {
						if call, ok := ast.Unparen(as.Rhs[0]).(*ast.CallExpr); ok && core.Callee(ef.F.Info(), call) == encRaw && len(call.Args) == 2 && ef.Obj(call.Args[1]) == types.Object(other) {
							isRaw = true
						}
					}
					return true
				})
				if !isRaw {
					x.names[other] = "U?notEncodeRawInput"
				}
			}
			ch := encChunk{pos: h.Pos()}
			for _, a := range h.Args[1:] {
				ch.args = append(ch.args, x.eval(a, nil))
			}
			ch.ctl = ch.args[0]
			encs = append(encs, ch)
			for _, f := range enclosingFor(ef.F.Decl.Body, h) {
				chunkLoop = f
			}
		}
		return true
	})
	sort.Slice(encs, func(i, j int) bool { return encs[i].ctl < encs[j].ctl })
	wantEnc := map[string][]string{
		"#1":   {"#1", be16m1hi("P"), be16m1lo("P")},
		"#224": {"#224", be16m1hi("U"), be16m1lo("U"), be16m1hi("P"), be16m1lo("P"), props},
	}
	encOK := map[string]bool{}
	for _, ch := range encs {
		w, known := wantEnc[ch.ctl]
		ok := known && strings.Join(w, " ") == strings.Join(ch.args, " ")
		encOK[ch.ctl] = ok
		c.Check(ok, "K3.chunk.enc", fmt.Sprintf("%s[chunk %s]", ea, ch.ctl),
			"LZMA2 chunk header as written: 0x01 + BE16(len(payload)-1) for a stored chunk; 0xE0 + BE16(len(uncompressed)-1) + BE16(len(payload)-1) + props 0x5D for an LZMA chunk whose payload is encodeRaw of that uncompressed slice", len(ch.args),
			fmt.Sprintf("%s: header bytes [%s]; expected [%s]", g.Pos(ch.pos), strings.Join(ch.args, " "), strings.Join(w, " ")))
	}
	c.Floor("K3.chunk.enc", "chunk header writes (header append followed by payload append) in encodeXz", len(encs), 2)
	// end marker
	endOK, endDetail := false, "no chunk loop found"
	if chunkLoop != nil {
		x := newSymx(ef.F.Info())
		x.names[edst] = "DST"
		after := false
		for _, s := range ef.F.Decl.Body.List {
			if s == ast.Stmt(chunkLoop) {
				after = true
				continue
			}
			if after {
				if call := appendTo(ef, s, edst); call != nil {
					endDetail = g.Pos(s.Pos()) + ": first write after the chunk loop is " + x.eval(call, nil)
					endOK = x.eval(call, nil) == "append(DST,#0)"
				} else {
					endDetail = g.Pos(s.Pos()) + ": the statement after the chunk loop is not an append to dst"
				}
				break
			}
		}
	}

	// ---- decoder: dispatch on src[0]
	dx := newSymx(df.F.Info())
	ddst, dsrc := df.Param(0), df.Param(1)
	init := symState{dx.oid(ddst): "DST", dx.oid(dsrc): "SRC"}
	type decChunk struct {
		body *ast.BlockStmt
		st   symState
		eff  symEffects
		err  error
	}
	decs := map[string]*decChunk{}
	var ctls []string
	for _, is := range ifConds(df.F.Decl.Body) {
		s := dx.eval(is.Cond, init)
		var v int
		if _, err := fmt.Sscanf(s, "eq(#%d,idx(SRC,#0))", &v); err != nil || s != fmt.Sprintf("eq(#%d,idx(SRC,#0))", v) {
			continue
		}
		d := &decChunk{body: is.Body, st: init.clone()}
		d.err = dx.exec(is.Body.List, d.st, true, &d.eff)
		k := fmt.Sprintf("#%d", v)
		decs[k] = d
		ctls = append(ctls, k)
	}
	sort.Strings(ctls)
	var encCtls []string
	for _, ch := range encs {
		encCtls = append(encCtls, ch.ctl)
	}
	if endOK {
		encCtls = append([]string{"#0"}, encCtls...)
	}
	sort.Strings(encCtls)
	c.Check(strings.Join(ctls, ",") == "#0,#1,#224" && strings.Join(encCtls, ",") == strings.Join(ctls, ","), "K3.chunk.ctl", both,
		"the control bytes the encoder writes {0x00 end, 0x01 stored + dictionary reset, 0xE0 LZMA + full reset + new props} are exactly the ones the decoder dispatches on", 3,
		fmt.Sprintf("%s: encoder writes {%s} (%s); %s: decoder dispatches on {%s}", g.Pos(ef.F.Decl.Pos()), strings.Join(encCtls, ","), endDetail, g.Pos(df.F.Decl.Pos()), strings.Join(ctls, ",")))

	S, D := dx.oid(dsrc), dx.oid(ddst)
	// guard conditions may be disjunctions: evaluate each disjunct in its snapshot
	guardHas := func(d *decChunk, want string) bool {
		for i, nd := range d.eff.guardNodes {
			for _, dj := range flattenOr(nd) {
				if dx.eval(dj, d.eff.guardSnap[i]) == want && d.eff.guardSnap[i][D] == "DST" {
					return true
				}
			}
		}
		return false
	}
	if d := decs["#0"]; d != nil {
		ok := d.err == nil && d.st[S] == "slice(SRC,#1,)" && d.st[D] == "DST" && d.eff.jump != nil && d.eff.jump.Tok == token.BREAK
		c.Check(ok && endOK, "K3.chunk.end", both, "the encoder ends the chunk sequence with a single 0x00 written right after the chunk loop; the decoder consumes exactly that byte and leaves its chunk loop", 2,
			fmt.Sprintf("%s; %s: decoder src=%s (%v)", endDetail, g.Pos(d.body.Pos()), d.st[S], d.err))
	}
	if d := decs["#1"]; d != nil {
		us := be16p1(1)
		rest := "slice(SRC,#3,)"
		ok := d.err == nil && encOK["#1"] &&
			d.st[D] == "append(DST,slice("+rest+",,"+us+"))" && d.st[S] == "slice("+rest+","+us+",)" &&
			guardHas(d, mk("lt", "conv:uint64(len("+rest+"))", "conv:uint64("+us+")"))
		c.Check(ok, "K3.chunk.raw", both, "stored chunk: 3 header bytes; the decoder's size is BE16(src[1],src[2])+1 (inverse of the encoder's BE16(len-1)), it checks size <= len(src[3:]) before copying, copies exactly src[3:][:size] and advances by size", 4,
			fmt.Sprintf("%s: dst=%s src=%s guards=%v err=%v", g.Pos(d.body.Pos()), d.st[D], d.st[S], d.eff.guardConds, d.err))
	}
	if d := decs["#224"]; d != nil {
		us, cs := be16p1(1), be16p1(3)
		rest := "slice(SRC,#6,)"
		callPrefix := ""
		ncall := 0
		ast.Inspect(d.body, func(n ast.Node) bool {
			if call, ok := n.(*ast.CallExpr); ok && core.Callee(df.F.Info(), call) == decRaw {
				ncall++
			}
			return true
		})
		if fn, ok := decRaw.(*types.Func); ok {
			callPrefix = "call:" + fn.FullName() + "(DST," + rest + ",conv:uint64(" + us + "),"
		}
		srcAfter := d.st[S]
		okCall := ncall == 1 && strings.HasPrefix(srcAfter, "res1("+callPrefix) && strings.HasPrefix(d.st[D], "res0("+callPrefix)
		callStr := strings.TrimSuffix(strings.TrimPrefix(srcAfter, "res1("), ")")
		okProps := false
		for i, nd := range d.eff.guardNodes {
			for _, dj := range flattenOr(nd) {
				if dx.eval(dj, d.eff.guardSnap[i]) == mk("ne", props, "idx(SRC,#5)") && d.eff.guardSnap[i][S] == "SRC" {
					okProps = true
				}
			}
		}
		okFit := guardHas(d, mk("lt", "conv:uint64(len("+rest+"))", "conv:uint64("+cs+")"))
		okUsed := false
		wantUsed := mk("ne", "len("+rest+")", mk("add", "conv:int("+cs+")", "len(res1("+callStr+"))"))
		for i, nd := range d.eff.guardNodes {
			if dx.eval(nd, d.eff.guardSnap[i]) == wantUsed {
				okUsed = true
			}
		}
		c.Check(d.err == nil && encOK["#224"] && okCall && okProps && okFit && okUsed, "K3.chunk.lzma", both,
			"LZMA chunk: 6 header bytes; uncompressed size BE16(src[1],src[2])+1 and compressed size BE16(src[3],src[4])+1 are the inverses of what the encoder writes; src[5] must be the props byte 0x5D = lzmaHeader5[0]; compressed size <= len(src[6:]) is checked; decodeRaw gets src[6:] and the uncompressed size; afterwards the bytes consumed must equal the compressed size", 6,
			fmt.Sprintf("%s: decodeRaw call ok=%v (src after = %.120s…), props test=%v, fit test=%v, consumed test=%v, err=%v", g.Pos(d.body.Pos()), okCall, srcAfter, okProps, okFit, okUsed, d.err))
	}
}
