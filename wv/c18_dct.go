package main

// C18, rule T.total: the in-place DCT entry points (*BlockI16).ForwardDCTFrom
// and (*BlockU8).InverseDCTFrom overwrite EVERY element of their destination
// block on every path (other than the nil-receiver return). The documented use
// is a loop that re-uses one destination block for every MCU, so an element
// that a path leaves untouched keeps the previous block's value: the result is
// not the DCT of the source (independently seeded change C18-4 added a
// flat-block fast path that sets dst[0] and returns). Decided as: every return
// is preceded by a whole-block store — a call of a Set… method on the receiver,
// an assignment `*dst = …`, or the exit of a counted 8×8 loop nest whose only
// store is `dst[8·outer+inner]` (the index form is evaluated over 0..7 × 0..7
// and must hit each of the 64 elements once).

import (
	"go/ast"
	"go/token"

	"wv/core"
)

func runC18DCT(k *gctx) {
	c := k.c
	n := 0
	for _, row := range [][2]string{{"BlockI16", "ForwardDCTFrom"}, {"BlockU8", "InverseDCTFrom"}} {
		fl := k.flow("T.total", relJPEG, row[0], row[1])
		if fl == nil {
			continue
		}
		info := fl.F.Info()
		recv := fl.Recv()
		isRecv := func(e ast.Expr) bool { return recv != nil && fl.Obj(e) == recv }
		// counted loop `for v := 0; v < 8; v++`
		counted := func(fs *ast.ForStmt) (iv interface{}, ok bool) {
			init, ok1 := fs.Init.(*ast.AssignStmt)
			post, ok2 := fs.Post.(*ast.IncDecStmt)
			cond, ok3 := fs.Cond.(*ast.BinaryExpr)
			if !ok1 || !ok2 || !ok3 || init.Tok != token.DEFINE || len(init.Lhs) != 1 || post.Tok != token.INC || cond.Op != token.LSS {
				return nil, false
			}
			v := fl.Obj(init.Lhs[0])
			if v == nil || fl.Obj(post.X) != v || fl.Obj(cond.X) != v {
				return nil, false
			}
			if s, isC := core.ConstInt64(info, init.Rhs[0]); !isC || s != 0 {
				return nil, false
			}
			if e, isC := core.ConstInt64(info, cond.Y); !isC || e != 8 {
				return nil, false
			}
			return v, true
		}
		// the covering nest: a top-level counted loop with a directly nested counted loop whose body stores dst[f(outer, inner)]
		var nest *ast.ForStmt
		cover := ""
		for _, st := range fl.F.Decl.Body.List {
			outer, ok := st.(*ast.ForStmt)
			if !ok {
				continue
			}
			ov, ok := counted(outer)
			if !ok {
				continue
			}
			for _, st2 := range outer.Body.List {
				inner, ok := st2.(*ast.ForStmt)
				if !ok {
					continue
				}
				iv, ok := counted(inner)
				if !ok {
					continue
				}
				// stores to dst[...] directly in the inner body (not nested deeper in conditionals)
				var idx ast.Expr
				stores := 0
				for _, st3 := range inner.Body.List {
					as, ok := st3.(*ast.AssignStmt)
					if !ok || as.Tok != token.ASSIGN || len(as.Lhs) != 1 {
						continue
					}
					ie, ok := ast.Unparen(as.Lhs[0]).(*ast.IndexExpr)
					if ok && isRecv(ie.X) {
						stores++
						idx = ie.Index
					}
				}
				if stores != 1 {
					continue
				}
				// evaluate the index over 0..7 × 0..7
				var eval func(e ast.Expr, o, i int64) (int64, bool)
				eval = func(e ast.Expr, o, i int64) (int64, bool) {
					e = ast.Unparen(e)
					if v, isC := core.ConstInt64(info, e); isC {
						return v, true
					}
					switch x := e.(type) {
					case *ast.Ident:
						switch fl.Obj(x) {
						case ov:
							return o, true
						case iv:
							return i, true
						}
					case *ast.BinaryExpr:
						a, ok1 := eval(x.X, o, i)
						b, ok2 := eval(x.Y, o, i)
						if ok1 && ok2 {
							switch x.Op {
							case token.ADD:
								return a + b, true
							case token.MUL:
								return a * b, true
							case token.OR:
								return a | b, true
							case token.SHL:
								return a << uint(b), true
							}
						}
					}
					return 0, false
				}
				seen := map[int64]int{}
				okAll := true
				for o := int64(0); o < 8; o++ {
					for i := int64(0); i < 8; i++ {
						v, ok := eval(idx, o, i)
						if !ok || v < 0 || v > 63 {
							okAll = false
						}
						seen[v]++
					}
				}
				if okAll && len(seen) == 64 {
					nest = outer
					cover = core.Src(k.g.Fset, idx)
				}
			}
		}
		anchor := fl.F.Name()
		claim := "every element of the destination block is overwritten on every path (the destination is re-used for every MCU, so an element left untouched keeps the previous block's value and the result is not the DCT of the source)"
		if nest == nil {
			c.Undecided("T.total", anchor, claim, "no counted 8×8 loop nest with a single store dst[f(outer,inner)] covering 0..63 found at the top level of the function")
			continue
		}
		n++
		k.mustPass("T.total", anchor+"[dst["+cover+"]]", claim, fl, core.Query{
			Exit:    func(x ast.Node) bool { _, ok := x.(*ast.ReturnStmt); return ok },
			FuncEnd: true,
			Exempt: func(cond ast.Expr, ci *core.CondInfo, taken bool) bool {
				ce, neg := boolCond(cond)
				if neg {
					taken = !taken
				}
				return (taken && nilTest(fl, ce, isRecv, true)) || (!taken && nilTest(fl, ce, isRecv, false))
			},
			Events: []core.Event{
				{Node: func(x ast.Node) bool {
					// dst.SetTo…() or *dst = …
					if core.Guaranteed(x, func(call *ast.CallExpr) bool {
						r := core.RecvOf(call)
						fn := core.Callee(info, call)
						return r != nil && isRecv(r) && fn != nil && len(fn.Name()) > 3 && fn.Name()[:3] == "Set"
					}) {
						return true
					}
					as, ok := x.(*ast.AssignStmt)
					if ok && as.Tok == token.ASSIGN && len(as.Lhs) == 1 {
						if st, ok := ast.Unparen(as.Lhs[0]).(*ast.StarExpr); ok && isRecv(st.X) {
							return true
						}
					}
					return false
				}},
				{Edge: func(cond ast.Expr, ci *core.CondInfo, taken bool) bool { return cond == nest.Cond && !taken }},
			},
		})
	}
	c.Floor("T.total", "in-place DCT entry points with a covering loop nest", n, 2)
}
