package main

// idxguard — the engine of rule family X (index and re-slice guards).
//
// A generalisation of the zone dataflow of c11_index.go (which is left as it
// is). For every function of a package the engine runs a forward dataflow over
// go/cfg whose abstract state is a pair of difference bound matrices over
//
//	0,
//	v            for every local / parameter / named result of integer type,
//	len(s) cap(s) for every local / parameter slice (len only for strings),
//	p.f          for every integer field path rooted at a local, parameter or
//	             the receiver (r.pos, c.bits.index, r.dRange[0] ...),
//	len(p.f) cap(p.f) for every slice-typed field path (r.cachedBytes, c.bits.bytes),
//	a+b          for the two-term sums that a guard, a make() or a slice bound spells.
//
// The first matrix ("A") holds everything the code establishes; the second
// ("G") is the same analysis with every guard (branch condition, early bounds
// check) switched off. A needed inequality that A does not imply is
//
//	FAIL  when the guards speak about exactly these quantities but not
//	      strongly enough (A is strictly tighter than G on them), or when
//	      every quantity is determined inside the function (constants,
//	      parameters of exported functions, lengths of such parameters,
//	      locals computed from those) and nothing guards it;
//	INFO  otherwise (the bound would have to come from a caller, an object
//	      invariant, a callee's contract, element values ...).
//
// Nothing is executed: the argument is the interval / zone argument, made
// interprocedural by three kinds of package-local summaries that are iterated
// to a fixpoint (widening, then two narrowing rounds): argument ranges of
// functions all of whose call sites are visible, result ranges, and inductive
// range invariants of unexported integer fields (every store in the package is
// seen).

import (
	"fmt"
	"go/ast"
	"go/constant"
	"go/token"
	"go/types"
	"sort"
	"strings"

	"wv/core"
)

// ---------------------------------------------------------------------------
// Intervals
// ---------------------------------------------------------------------------

const igInf = int64(1) << 60

// igIv is a closed interval; lo == -igInf / hi == igInf mean unbounded. lo > hi: empty.
type igIv struct{ lo, hi int64 }

var (
	igTop    = igIv{-igInf, igInf}
	igBottom = igIv{1, 0}
	igNonNeg = igIv{0, igInf}
)

func igPt(k int64) igIv { return igIv{k, k} }

func (a igIv) empty() bool   { return a.lo > a.hi }
func (a igIv) isPoint() bool { return a.lo == a.hi && a.lo > -igInf && a.hi < igInf }

func igClamp(v int64) int64 {
	if v >= igInf {
		return igInf
	}
	if v <= -igInf {
		return -igInf
	}
	return v
}

// igAdd adds two bounds of the same direction (both lower or both upper bounds).
func igAdd(a, b int64) int64 {
	if a >= igInf || b >= igInf {
		return igInf
	}
	if a <= -igInf || b <= -igInf {
		return -igInf
	}
	return igClamp(a + b)
}

func igMul(a, c int64) int64 {
	if a == 0 || c == 0 {
		return 0
	}
	neg := (a < 0) != (c < 0)
	ua, uc := a, c
	if ua < 0 {
		ua = -ua
	}
	if uc < 0 {
		uc = -uc
	}
	if ua >= igInf || uc >= igInf || ua > igInf/uc {
		if neg {
			return -igInf
		}
		return igInf
	}
	return a * c
}

func (a igIv) add(b igIv) igIv {
	if a.empty() || b.empty() {
		return igBottom
	}
	return igIv{igAdd(a.lo, b.lo), igAdd(a.hi, b.hi)}
}

func (a igIv) scale(c int64) igIv {
	if a.empty() {
		return a
	}
	if c >= 0 {
		return igIv{igMul(a.lo, c), igMul(a.hi, c)}
	}
	return igIv{igMul(a.hi, c), igMul(a.lo, c)}
}

func (a igIv) join(b igIv) igIv {
	if a.empty() {
		return b
	}
	if b.empty() {
		return a
	}
	o := a
	if b.lo < o.lo {
		o.lo = b.lo
	}
	if b.hi > o.hi {
		o.hi = b.hi
	}
	return o
}

func (a igIv) meet(b igIv) igIv {
	o := a
	if b.lo > o.lo {
		o.lo = b.lo
	}
	if b.hi < o.hi {
		o.hi = b.hi
	}
	return o
}

func (a igIv) within(b igIv) bool { return a.empty() || (a.lo >= b.lo && a.hi <= b.hi) }

// widenTo: bounds of a that moved outward relative to old jump to lim's bound.
func (a igIv) widenTo(old, lim igIv) igIv {
	if old.empty() {
		return a
	}
	o := a.join(old)
	if o.lo < old.lo {
		o.lo = lim.lo
	}
	if o.hi > old.hi {
		o.hi = lim.hi
	}
	return o
}

func (a igIv) String() string {
	if a.empty() {
		return "(none)"
	}
	l, h := "-inf", "+inf"
	if a.lo > -igInf {
		l = fmt.Sprint(a.lo)
	}
	if a.hi < igInf {
		h = fmt.Sprint(a.hi)
	}
	return "[" + l + "," + h + "]"
}

// igTypeRange: the values an expression of basic integer type t can take.
func igTypeRange(t types.Type) (igIv, bool) {
	b, ok := t.Underlying().(*types.Basic)
	if !ok || b.Info()&types.IsInteger == 0 {
		return igTop, false
	}
	switch b.Kind() {
	case types.Int8:
		return igIv{-1 << 7, 1<<7 - 1}, true
	case types.Int16:
		return igIv{-1 << 15, 1<<15 - 1}, true
	case types.Int32:
		return igIv{-1 << 31, 1<<31 - 1}, true
	case types.Uint8:
		return igIv{0, 1<<8 - 1}, true
	case types.Uint16:
		return igIv{0, 1<<16 - 1}, true
	case types.Uint32:
		return igIv{0, 1<<32 - 1}, true
	case types.Uint, types.Uint64, types.Uintptr:
		return igIv{0, igInf}, true
	}
	return igTop, true // int, int64, untyped int
}

func igIsInteger(t types.Type) bool {
	if t == nil {
		return false
	}
	b, ok := t.Underlying().(*types.Basic)
	return ok && b.Info()&types.IsInteger != 0
}

func igIsString(t types.Type) bool {
	if t == nil {
		return false
	}
	b, ok := t.Underlying().(*types.Basic)
	return ok && b.Info()&types.IsString != 0
}

func igIsSlice(t types.Type) bool {
	if t == nil {
		return false
	}
	_, ok := t.Underlying().(*types.Slice)
	return ok
}

// igArrayType: the array type behind t (an array or a pointer to one).
func igArrayType(t types.Type) types.Type {
	if t == nil {
		return nil
	}
	switch u := t.Underlying().(type) {
	case *types.Array:
		return u
	case *types.Pointer:
		if a, ok := u.Elem().Underlying().(*types.Array); ok {
			return a
		}
	}
	return nil
}

// igArrayLen: the constant length when t is an array or a pointer to an array.
func igArrayLen(t types.Type) (int64, bool) {
	if t == nil {
		return 0, false
	}
	switch u := t.Underlying().(type) {
	case *types.Array:
		return u.Len(), true
	case *types.Pointer:
		if a, ok := u.Elem().Underlying().(*types.Array); ok {
			return a.Len(), true
		}
	}
	return 0, false
}

// ---------------------------------------------------------------------------
// Difference bound matrices
// ---------------------------------------------------------------------------

// igMat[i][j] is an upper bound of node_i - node_j. nil = infeasible.
type igMat [][]int64

func newIgMat(n int) igMat {
	m := make(igMat, n)
	for i := range m {
		m[i] = make([]int64, n)
		for j := range m[i] {
			if i != j {
				m[i][j] = igInf
			}
		}
	}
	return m
}

func (m igMat) clone() igMat {
	if m == nil {
		return nil
	}
	o := make(igMat, len(m))
	for i := range m {
		o[i] = append([]int64(nil), m[i]...)
	}
	return o
}

// add tightens x - y <= c and restores closure; false when infeasible.
func (m igMat) add(x, y int, c int64) bool {
	if c >= igInf {
		return true
	}
	if c <= -igInf {
		return false
	}
	if x == y {
		return c >= 0
	}
	if c >= m[x][y] {
		return true
	}
	n := len(m)
	for i := 0; i < n; i++ {
		ix := m[i][x]
		if ix >= igInf {
			continue
		}
		for j := 0; j < n; j++ {
			yj := m[y][j]
			if yj >= igInf {
				continue
			}
			if v := ix + c + yj; v < m[i][j] {
				m[i][j] = v
			}
		}
	}
	for i := 0; i < n; i++ {
		if m[i][i] < 0 {
			return false
		}
	}
	return true
}

// close restores closure from scratch (Floyd-Warshall); false when infeasible.
func (m igMat) close() bool {
	n := len(m)
	for k := 0; k < n; k++ {
		for i := 0; i < n; i++ {
			ik := m[i][k]
			if ik >= igInf {
				continue
			}
			for j := 0; j < n; j++ {
				if kj := m[k][j]; kj < igInf && ik+kj < m[i][j] {
					m[i][j] = ik + kj
				}
			}
		}
	}
	for i := 0; i < n; i++ {
		if m[i][i] < 0 {
			return false
		}
	}
	return true
}

func (m igMat) forget(v int) {
	for y := range m {
		if y != v {
			m[v][y], m[y][v] = igInf, igInf
		}
	}
}

// shift: v := v + d for some d in [lo, hi].
func (m igMat) shift(v int, lo, hi int64) {
	for y := range m {
		if y == v {
			continue
		}
		if m[v][y] < igInf {
			m[v][y] = igAdd(m[v][y], hi)
		}
		if m[y][v] < igInf {
			if lo <= -igInf {
				m[y][v] = igInf
			} else {
				m[y][v] = igAdd(m[y][v], -lo)
			}
		}
	}
}

func (m igMat) ub(x int) int64 { return m[x][0] }
func (m igMat) lb(x int) int64 {
	if m[0][x] >= igInf {
		return -igInf
	}
	return -m[0][x]
}
func (m igMat) iv(x int) igIv { return igIv{m.lb(x), m.ub(x)} }

func igMatJoin(a, b igMat, widen bool) igMat {
	if a == nil {
		return b.clone()
	}
	if b == nil {
		return a.clone()
	}
	o := a.clone()
	for i := range o {
		for j := range o[i] {
			if b[i][j] > o[i][j] {
				if widen {
					o[i][j] = igInf
				} else {
					o[i][j] = b[i][j]
				}
			}
		}
	}
	return o
}

func igMatEqual(a, b igMat) bool {
	if (a == nil) != (b == nil) {
		return false
	}
	for i := range a {
		for j := range a[i] {
			if a[i][j] != b[i][j] {
				return false
			}
		}
	}
	return true
}

// igMatMeet adds every finite constraint of b to a copy of a.
func igMatMeet(a, b igMat) igMat {
	if a == nil || b == nil {
		return nil
	}
	o := a.clone()
	for i := range b {
		for j := range b[i] {
			if i != j && b[i][j] < igInf {
				if !o.add(i, j, b[i][j]) {
					return nil
				}
			}
		}
	}
	return o
}

// ---------------------------------------------------------------------------
// Access paths and nodes
// ---------------------------------------------------------------------------

// igSel is one step of an access path: a field selection or a constant index of an array.
type igSel struct {
	field *types.Var // nil for an index step
	index int64
}

// igPath is root(.field | [const])*; pointers are dereferenced implicitly.
type igPath struct {
	root *types.Var
	sel  []igSel
	key  string
	text string
	arr  types.Type // the array type indexed by the last step, when that is an index step
}

// endsInIndex: the path denotes an element of an array.
func (p *igPath) endsInIndex() bool { return len(p.sel) > 0 && p.sel[len(p.sel)-1].field == nil }

func (p *igPath) hasField(f *types.Var) bool {
	for _, s := range p.sel {
		if s.field == f {
			return true
		}
	}
	return false
}

func (p *igPath) lastField() *types.Var {
	for i := len(p.sel) - 1; i >= 0; i-- {
		if p.sel[i].field != nil {
			return p.sel[i].field
		}
	}
	return nil
}

// hasPrefix: q is p or an extension of p.
func (p *igPath) isPrefixOf(q *igPath) bool {
	if p.root != q.root || len(p.sel) > len(q.sel) {
		return false
	}
	for i, s := range p.sel {
		if q.sel[i] != s {
			return false
		}
	}
	return true
}

type igNodeKind int

const (
	igKZero igNodeKind = iota
	igKInt
	igKLen
	igKCap
	igKSum
)

type igNode struct {
	kind  igNodeKind
	name  string
	path  *igPath
	rng   igIv // always holds (type range; [0,inf) for len/cap)
	a, b  int  // parts of a sum node
	other int  // len node -> its cap node (0 when none); cap node -> its len node
}

// igLin: sum(co[node]*node) + k for some k in iv. bottom: the value of an
// expression that is never produced (call of a function that does not return).
type igLin struct {
	co     map[int]int64
	iv     igIv
	owned  bool // the value is determined inside the function from constants and owned nodes
	bottom bool
}

func igConstLin(k int64) igLin { return igLin{iv: igPt(k), owned: true} }
func igAnon(iv igIv) igLin     { return igLin{iv: iv} }

func (l igLin) plus(r igLin) igLin {
	o := igLin{co: map[int]int64{}, iv: l.iv.add(r.iv), owned: l.owned && r.owned, bottom: l.bottom || r.bottom}
	for n, v := range l.co {
		o.co[n] = v
	}
	for n, v := range r.co {
		if o.co[n]+v == 0 {
			delete(o.co, n)
		} else {
			o.co[n] += v
		}
	}
	return o
}

func (l igLin) scaled(c int64) igLin {
	o := igLin{co: map[int]int64{}, iv: l.iv.scale(c), owned: l.owned, bottom: l.bottom}
	for n, v := range l.co {
		if c != 0 {
			o.co[n] = igMul(v, c)
		}
	}
	return o
}

func (l igLin) minus(r igLin) igLin { return l.plus(r.scaled(-1)) }

func (l igLin) plusConst(k int64) igLin { return l.plus(igLin{iv: igPt(k), owned: true}) }

func (l igLin) nodes() []int {
	var out []int
	for n := range l.co {
		out = append(out, n)
	}
	sort.Ints(out)
	return out
}

func (l igLin) sameForm(r igLin) bool {
	if len(l.co) != len(r.co) {
		return false
	}
	for n, v := range l.co {
		if r.co[n] != v {
			return false
		}
	}
	return true
}

// ---------------------------------------------------------------------------
// Upper bounds of linear forms
// ---------------------------------------------------------------------------

// igUnit is one summand of a decomposition of a linear form: x - y (y == 0: x
// alone; x == 0: -y alone) times coef (coef == 1 for pairs).
type igUnit struct {
	x, y int
	coef int64
}

func igUnitUB(m igMat, u igUnit) int64 {
	switch {
	case u.x != 0 && u.y != 0:
		return m[u.x][u.y]
	case u.x != 0:
		if u.coef >= 0 {
			return igMul(m.ub(u.x), u.coef)
		}
		return igMul(m.lb(u.x), u.coef)
	default:
		// -coef*y
		if u.coef >= 0 {
			return igMul(m.lb(u.y), -u.coef)
		}
		return igMul(m.ub(u.y), -u.coef)
	}
}

// decompositions of the node part of l into units (pairs of +1/-1 nodes or singles).
func igDecompose(l igLin, visit func(units []igUnit)) {
	var pos, neg []int
	var fixed []igUnit
	for _, n := range l.nodes() {
		switch c := l.co[n]; c {
		case 1:
			pos = append(pos, n)
		case -1:
			neg = append(neg, n)
		default:
			if c > 0 {
				fixed = append(fixed, igUnit{x: n, coef: c})
			} else {
				fixed = append(fixed, igUnit{y: n, coef: -c})
			}
		}
	}
	used := make([]bool, len(neg))
	var rec func(i int, acc []igUnit)
	rec = func(i int, acc []igUnit) {
		if i == len(pos) {
			out := append([]igUnit(nil), acc...)
			for j, n := range neg {
				if !used[j] {
					out = append(out, igUnit{y: n, coef: 1})
				}
			}
			visit(out)
			return
		}
		rec(i+1, append(acc, igUnit{x: pos[i], coef: 1}))
		for j, n := range neg {
			if !used[j] {
				used[j] = true
				rec(i+1, append(acc, igUnit{x: pos[i], y: n, coef: 1}))
				used[j] = false
			}
		}
	}
	if len(pos) > 4 || len(neg) > 4 {
		// too many terms: singles only
		out := append([]igUnit(nil), fixed...)
		for _, n := range pos {
			out = append(out, igUnit{x: n, coef: 1})
		}
		for _, n := range neg {
			out = append(out, igUnit{y: n, coef: 1})
		}
		visit(out)
		return
	}
	rec(0, fixed)
}

// igUB: the least upper bound of l that the matrix yields over all decompositions.
func igUB(m igMat, l igLin) int64 {
	if l.iv.empty() {
		return -igInf
	}
	best := igInf
	igDecompose(l, func(units []igUnit) {
		s := l.iv.hi
		for _, u := range units {
			s = igAdd(s, igUnitUB(m, u))
			if s >= igInf {
				return
			}
		}
		if s < best {
			best = s
		}
	})
	return best
}

func igLB(m igMat, l igLin) int64 {
	u := igUB(m, l.scaled(-1))
	if u >= igInf {
		return -igInf
	}
	if u <= -igInf {
		return igInf
	}
	return -u
}

func igIvOf(m igMat, l igLin) igIv {
	if l.bottom || l.iv.empty() {
		return igBottom
	}
	return igIv{igLB(m, l), igUB(m, l)}
}

// igImproved: some decomposition of l in which every unit is bounded by A
// strictly better than by G — "the direct guards speak about exactly these
// quantities". A pair x - y counts only when its bound is relational (strictly
// better than what the two nodes' own ranges give); a single node counts only
// when its improved bound is not merely the image, through a relation x - w,
// of a bound of another node w that no guard improved.
func igImproved(a, g igMat, l igLin) bool {
	if len(l.co) == 0 {
		return false
	}
	singleImproved := func(x int, upper bool) bool {
		if upper {
			if a[x][0] >= igInf || a[x][0] >= g[x][0] {
				return false
			}
			for w := 1; w < len(a); w++ {
				// (only a relational x - w: one that the two ranges do not already imply)
				if w != x && a[x][w] < igInf && a[w][0] < igInf && a[x][w] < igAdd(a[x][0], a[0][w]) && igAdd(a[x][w], a[w][0]) == a[x][0] && a[w][0] >= g[w][0] {
					return false
				}
			}
			return true
		}
		if a[0][x] >= igInf || a[0][x] >= g[0][x] {
			return false
		}
		for w := 1; w < len(a); w++ {
			if w != x && a[w][x] < igInf && a[0][w] < igInf && a[w][x] < igAdd(a[w][0], a[0][x]) && igAdd(a[0][w], a[w][x]) == a[0][x] && a[0][w] >= g[0][w] {
				return false
			}
		}
		return true
	}
	found := false
	igDecompose(l, func(units []igUnit) {
		if found {
			return
		}
		for _, u := range units {
			switch {
			case u.x != 0 && u.y != 0:
				ua, ug := a[u.x][u.y], g[u.x][u.y]
				if ua >= igInf || ua >= ug || ua >= igAdd(a.ub(u.x), a[0][u.y]) {
					return
				}
			case u.x != 0:
				if !singleImproved(u.x, u.coef >= 0) {
					return
				}
			default:
				if !singleImproved(u.y, u.coef < 0) {
					return
				}
			}
		}
		found = true
	})
	return found
}

// ---------------------------------------------------------------------------
// Per-function vocabulary: nodes, paths
// ---------------------------------------------------------------------------

type igFn struct {
	P    *igPkg
	name string
	decl *ast.FuncDecl
	obj  *types.Func
	info *types.Info
	fset *token.FileSet

	nodes    []igNode
	byKey    map[string]int // path key -> int node or len node
	capOf    map[string]int // path key -> cap node
	paths    map[string]*igPath
	untrack  map[*types.Var]string
	volatile map[*types.Var]bool // fields stored inside a function literal of this function
	sums     map[[2]int]int
	sumList  []int
	params   []*types.Var
	lossy    map[int]string // node -> a guard the zone cannot hold that mentions it
}

func (F *igFn) src(n ast.Node) string { return core.Src(F.fset, n) }

func (F *igFn) varOf(e ast.Expr) *types.Var {
	id, ok := ast.Unparen(e).(*ast.Ident)
	if !ok {
		return nil
	}
	if o, ok := F.info.Uses[id].(*types.Var); ok {
		return o
	}
	if o, ok := F.info.Defs[id].(*types.Var); ok {
		return o
	}
	return nil
}

func (F *igFn) typeOf(e ast.Expr) types.Type {
	if tv, ok := F.info.Types[e]; ok && tv.Type != nil {
		return tv.Type
	}
	if id, ok := e.(*ast.Ident); ok {
		if o := F.info.ObjectOf(id); o != nil {
			return o.Type()
		}
	}
	return nil
}

func (F *igFn) constInt(e ast.Expr) (int64, bool) {
	tv, ok := F.info.Types[e]
	if !ok || tv.Value == nil {
		return 0, false
	}
	v := constant.ToInt(tv.Value)
	if v.Kind() != constant.Int {
		return 0, false
	}
	k, ok := constant.Int64Val(v)
	if !ok || k <= -igInf/4 || k >= igInf/4 {
		return 0, false
	}
	return k, true
}

// pathOf resolves root(.field|[const])*; nil when e is not such an expression
// or its root is not a trackable local.
func (F *igFn) pathOf(e ast.Expr) *igPath {
	e = ast.Unparen(e)
	switch v := e.(type) {
	case *ast.Ident:
		o := F.varOf(v)
		if o == nil || o.IsField() || o.Pkg() == nil || o.Parent() == o.Pkg().Scope() || o.Parent() == types.Universe {
			return nil
		}
		if _, bad := F.untrack[o]; bad {
			return nil
		}
		return &igPath{root: o, key: fmt.Sprintf("%p", o), text: o.Name()}
	case *ast.SelectorExpr:
		sel, ok := F.info.Selections[v]
		if !ok || sel.Kind() != types.FieldVal || len(sel.Index()) != 1 {
			return nil
		}
		f, ok := sel.Obj().(*types.Var)
		if !ok {
			return nil
		}
		if F.volatile[f] {
			return nil
		}
		p := F.pathOf(v.X)
		if p == nil {
			return nil
		}
		return &igPath{root: p.root, sel: append(append([]igSel(nil), p.sel...), igSel{field: f}),
			key: p.key + fmt.Sprintf(".%p", f), text: p.text + "." + f.Name()}
	case *ast.IndexExpr:
		if _, isArr := igArrayLen(F.typeOf(v.X)); !isArr {
			return nil
		}
		k, ok := F.constInt(v.Index)
		if !ok {
			return nil
		}
		p := F.pathOf(v.X)
		if p == nil {
			return nil
		}
		return &igPath{root: p.root, sel: append(append([]igSel(nil), p.sel...), igSel{index: k}),
			key: p.key + fmt.Sprintf("[%d]", k), text: p.text + fmt.Sprintf("[%d]", k), arr: igArrayType(F.typeOf(v.X))}
	case *ast.StarExpr:
		// *p where p is a pointer to a struct/array: the same object as p (implicit dereference)
		if t := F.typeOf(v.X); t != nil {
			if pt, ok := t.Underlying().(*types.Pointer); ok {
				switch pt.Elem().Underlying().(type) {
				case *types.Struct, *types.Array:
					return F.pathOf(v.X)
				}
			}
		}
	}
	return nil
}

func (F *igFn) addNode(n igNode) int {
	F.nodes = append(F.nodes, n)
	return len(F.nodes) - 1
}

// register creates the node(s) for a path expression of integer, slice or string type.
func (F *igFn) register(e ast.Expr) {
	t := F.typeOf(e)
	if t == nil {
		return
	}
	isInt, isSl, isStr := igIsInteger(t), igIsSlice(t), igIsString(t)
	if !isInt && !isSl && !isStr {
		return
	}
	if tv, ok := F.info.Types[e]; ok && (tv.Value != nil || tv.IsType()) {
		return
	}
	p := F.pathOf(e)
	if p == nil {
		return
	}
	if _, ok := F.byKey[p.key]; ok {
		return
	}
	if len(F.nodes) > 150 {
		return
	}
	F.paths[p.key] = p
	switch {
	case isInt:
		rng, _ := igTypeRange(t)
		F.byKey[p.key] = F.addNode(igNode{kind: igKInt, name: p.text, path: p, rng: rng})
	case isStr:
		F.byKey[p.key] = F.addNode(igNode{kind: igKLen, name: "len(" + p.text + ")", path: p, rng: igNonNeg})
	default:
		l := F.addNode(igNode{kind: igKLen, name: "len(" + p.text + ")", path: p, rng: igNonNeg})
		c := F.addNode(igNode{kind: igKCap, name: "cap(" + p.text + ")", path: p, rng: igNonNeg, other: l})
		F.nodes[l].other = c
		F.byKey[p.key] = l
		F.capOf[p.key] = c
	}
}

func (F *igFn) intNode(e ast.Expr) (int, bool) {
	p := F.pathOf(e)
	if p == nil {
		return 0, false
	}
	n, ok := F.byKey[p.key]
	if !ok || F.nodes[n].kind != igKInt {
		return 0, false
	}
	return n, true
}

func (F *igFn) lenNode(e ast.Expr) (int, bool) {
	p := F.pathOf(e)
	if p == nil {
		return 0, false
	}
	n, ok := F.byKey[p.key]
	if !ok || F.nodes[n].kind != igKLen {
		return 0, false
	}
	return n, true
}

func (F *igFn) capNode(e ast.Expr) (int, bool) {
	p := F.pathOf(e)
	if p == nil {
		return 0, false
	}
	n, ok := F.capOf[p.key]
	return n, ok
}

func (F *igFn) builtin(call *ast.CallExpr) string {
	if id, ok := ast.Unparen(call.Fun).(*ast.Ident); ok {
		if b, ok := F.info.Uses[id].(*types.Builtin); ok {
			return b.Name()
		}
	}
	return ""
}

func (F *igFn) isConversion(call *ast.CallExpr) (types.Type, bool) {
	if tv, ok := F.info.Types[call.Fun]; ok && tv.IsType() && len(call.Args) == 1 {
		return tv.Type, true
	}
	return nil, false
}

// ---------------------------------------------------------------------------
// Evaluation of integer expressions
// ---------------------------------------------------------------------------

// igEnv: the matrix against which ranges are read (A or G) and the ownership bits.
type igEnv struct {
	F    *igFn
	m    igMat // nil: purely structural evaluation (no wrap checks)
	own  []bool
	mode int // 0 = A summaries, 1 = G summaries
}

func (E *igEnv) ownedNode(n int) bool {
	if E.own == nil || n >= len(E.own) {
		return false
	}
	return E.own[n]
}

func (E *igEnv) nodeLin(n int) igLin {
	return igLin{co: map[int]int64{n: 1}, iv: igPt(0), owned: E.ownedNode(n)}
}

func (E *igEnv) ivOf(l igLin) igIv {
	if E.m == nil {
		if len(l.co) == 0 {
			return l.iv
		}
		return igTop
	}
	return igIvOf(E.m, l)
}

// fit: the value of l as an expression of type t; when the range of l is not
// known to lie inside t's range, the result may have wrapped: any value of t.
func (E *igEnv) fit(l igLin, t types.Type) igLin {
	if l.bottom {
		return l
	}
	rng, ok := igTypeRange(t)
	if !ok {
		return igAnon(igTop)
	}
	if E.m == nil {
		return l
	}
	if rng.lo <= -igInf && rng.hi >= igInf {
		return l
	}
	iv := igIvOf(E.m, l)
	if iv.within(rng) {
		return l
	}
	return igAnon(rng)
}

func (E *igEnv) typeRangeOf(e ast.Expr) igLin {
	if t := E.F.typeOf(e); t != nil {
		if rng, ok := igTypeRange(t); ok {
			return igAnon(rng)
		}
	}
	return igAnon(igTop)
}

// normalize substitutes registered sum nodes for pairs of +1 (or of -1) nodes.
func (E *igEnv) normalize(l igLin) igLin {
	if len(E.F.sums) == 0 || len(l.co) < 2 {
		return l
	}
	for _, s := range E.F.sumList {
		nd := E.F.nodes[s]
		ca, cb := l.co[nd.a], l.co[nd.b]
		if ca == cb && (ca == 1 || ca == -1) {
			o := igLin{co: map[int]int64{}, iv: l.iv, owned: l.owned, bottom: l.bottom}
			for n, v := range l.co {
				if n != nd.a && n != nd.b {
					o.co[n] = v
				}
			}
			if o.co[s]+ca == 0 {
				delete(o.co, s)
			} else {
				o.co[s] += ca
			}
			l = o
		}
	}
	return l
}

func (E *igEnv) eval(e ast.Expr) igLin {
	F := E.F
	e = ast.Unparen(e)
	if k, ok := F.constInt(e); ok {
		return igConstLin(k)
	}
	if tv, ok := F.info.Types[e]; ok && tv.Value != nil {
		return E.typeRangeOf(e) // a constant too large for the engine
	}
	t := F.typeOf(e)
	if !igIsInteger(t) {
		return igAnon(igTop)
	}
	switch v := e.(type) {
	case *ast.Ident, *ast.SelectorExpr:
		if n, ok := F.intNode(e); ok {
			return E.nodeLin(n)
		}
		if sel, ok := e.(*ast.SelectorExpr); ok {
			if f := F.fieldOfSelector(sel); f != nil {
				if iv, ok := F.P.fieldRange(f, E.mode); ok {
					return igAnon(iv)
				}
			}
		}
		return E.typeRangeOf(e)
	case *ast.IndexExpr:
		if n, ok := F.intNode(e); ok {
			return E.nodeLin(n)
		}
		if iv, ok := F.P.tableRange(F, v); ok {
			return igAnon(iv)
		}
		return E.typeRangeOf(e)
	case *ast.CallExpr:
		return E.evalCall(v)
	case *ast.BinaryExpr:
		return E.evalBinary(v, t)
	case *ast.UnaryExpr:
		switch v.Op {
		case token.ADD:
			return E.eval(v.X)
		case token.SUB:
			return E.fit(E.eval(v.X).scaled(-1), t)
		}
		return E.typeRangeOf(e)
	}
	return E.typeRangeOf(e)
}

func (F *igFn) fieldOfSelector(sel *ast.SelectorExpr) *types.Var {
	s, ok := F.info.Selections[sel]
	if !ok || s.Kind() != types.FieldVal {
		return nil
	}
	f, _ := s.Obj().(*types.Var)
	return f
}

func (E *igEnv) evalCall(call *ast.CallExpr) igLin {
	F := E.F
	switch F.builtin(call) {
	case "len":
		if len(call.Args) == 1 {
			ln, _, ok := E.seqVal(call.Args[0])
			if ok {
				return ln
			}
		}
		return igAnon(igNonNeg)
	case "cap":
		if len(call.Args) == 1 {
			_, cp, ok := E.seqVal(call.Args[0])
			if ok {
				return cp
			}
		}
		return igAnon(igNonNeg)
	case "min", "max":
		if len(call.Args) >= 1 {
			var acc igIv = igBottom
			lo, hi := igInf, -igInf
			for _, a := range call.Args {
				iv := E.ivOf(E.eval(a))
				acc = acc.join(iv)
				if iv.hi < lo {
					lo = iv.hi
				}
				if iv.lo > hi {
					hi = iv.lo
				}
			}
			if F.builtin(call) == "min" {
				return igAnon(igIv{acc.lo, lo})
			}
			return igAnon(igIv{hi, acc.hi})
		}
	}
	if t, ok := F.isConversion(call); ok {
		if !igIsInteger(t) {
			return igAnon(igTop)
		}
		at := F.typeOf(call.Args[0])
		if !igIsInteger(at) {
			return E.typeRangeOf(call)
		}
		return E.fit(E.eval(call.Args[0]), t)
	}
	// a call of a function of the package: the range of its (single) result
	if fn := F.P.staticCallee(F.info, call); fn != nil {
		if rs, ok := F.P.retRange(fn, 0, E.mode); ok {
			if rs.empty() {
				return igLin{iv: igBottom, bottom: true}
			}
			if tr, ok := igTypeRange(F.typeOf(call)); ok {
				rs = rs.meet(tr)
			}
			return igAnon(rs)
		}
	}
	return E.typeRangeOf(call)
}

func igBitLenBound(hi int64) int64 {
	// the smallest 2^k - 1 >= hi
	b := int64(0)
	for b < hi && b < igInf {
		b = b<<1 | 1
	}
	return b
}

func (E *igEnv) evalBinary(v *ast.BinaryExpr, t types.Type) igLin {
	a, b := E.eval(v.X), E.eval(v.Y)
	if a.bottom || b.bottom {
		return igLin{iv: igBottom, bottom: true}
	}
	rng, _ := igTypeRange(t)
	constOf := func(l igLin) (int64, bool) {
		if len(l.co) == 0 && l.iv.isPoint() {
			return l.iv.lo, true
		}
		return 0, false
	}
	anon := func(iv igIv) igLin { return igAnon(iv.meet(rng)) }
	switch v.Op {
	case token.ADD:
		return E.fit(a.plus(b), t)
	case token.SUB:
		return E.fit(a.minus(b), t)
	case token.MUL:
		if k, ok := constOf(a); ok {
			return E.fit(b.scaled(k), t)
		}
		if k, ok := constOf(b); ok {
			return E.fit(a.scaled(k), t)
		}
		ia, ib := E.ivOf(a), E.ivOf(b)
		if ia.lo >= 0 && ib.lo >= 0 {
			hi := igInf
			if ia.hi < igInf && ib.hi < igInf {
				hi = igMul(ia.hi, ib.hi)
			}
			return E.fit(igAnon(igIv{igMul(ia.lo, ib.lo), hi}), t)
		}
	case token.QUO:
		if k, ok := constOf(b); ok && k > 0 {
			ia := E.ivOf(a)
			if ia.lo >= 0 {
				hi := igInf
				if ia.hi < igInf {
					hi = ia.hi / k
				}
				return anon(igIv{ia.lo / k, hi})
			}
		}
	case token.REM:
		ib := E.ivOf(b)
		if ib.lo > 0 && ib.hi < igInf {
			ia := E.ivOf(a)
			if ia.lo >= 0 {
				hi := ib.hi - 1
				if ia.hi < hi {
					hi = ia.hi
				}
				return anon(igIv{0, hi})
			}
			return anon(igIv{-(ib.hi - 1), ib.hi - 1})
		}
	case token.SHR:
		ia, ib := E.ivOf(a), E.ivOf(b)
		if ia.lo >= 0 && ib.lo >= 0 {
			hi := igInf
			if ia.hi < igInf {
				if ib.lo >= 62 {
					hi = 0
				} else {
					hi = ia.hi >> uint(ib.lo)
				}
			}
			lo := int64(0)
			if ib.hi < 62 && ia.lo > 0 {
				lo = ia.lo >> uint(ib.hi)
			}
			return anon(igIv{lo, hi})
		}
	case token.SHL:
		ia, ib := E.ivOf(a), E.ivOf(b)
		if ia.lo >= 0 && ib.lo >= 0 && ib.hi < 60 && ia.hi < igInf {
			hi := igMul(ia.hi, int64(1)<<uint(ib.hi))
			lo := igMul(ia.lo, int64(1)<<uint(ib.lo))
			return E.fit(igAnon(igIv{lo, hi}), t)
		}
	case token.AND:
		ia, ib := E.ivOf(a), E.ivOf(b)
		hi := igInf
		if ia.lo >= 0 && ia.hi < hi {
			hi = ia.hi
		}
		if ib.lo >= 0 && ib.hi < hi {
			hi = ib.hi
		}
		if hi < igInf {
			return anon(igIv{0, hi})
		}
	case token.OR, token.XOR:
		ia, ib := E.ivOf(a), E.ivOf(b)
		if ia.lo >= 0 && ib.lo >= 0 && ia.hi < igInf && ib.hi < igInf {
			hi := igBitLenBound(ia.hi)
			if h2 := igBitLenBound(ib.hi); h2 > hi {
				hi = h2
			}
			lo := int64(0)
			if v.Op == token.OR {
				lo = ia.lo
				if ib.lo > lo {
					lo = ib.lo
				}
			}
			return anon(igIv{lo, hi})
		}
	case token.AND_NOT:
		ia := E.ivOf(a)
		if ia.lo >= 0 {
			return anon(igIv{0, ia.hi})
		}
	}
	return igAnon(rng)
}

// seqVal: length and capacity of the value of a slice / string / array expression.
func (E *igEnv) seqVal(e ast.Expr) (ln, cp igLin, ok bool) {
	F := E.F
	e = ast.Unparen(e)
	t := F.typeOf(e)
	if tv, okc := F.info.Types[e]; okc && tv.Value != nil && tv.Value.Kind() == constant.String {
		n := int64(len(constant.StringVal(tv.Value)))
		return igConstLin(n), igConstLin(n), true
	}
	if n, isArr := igArrayLen(t); isArr {
		return igConstLin(n), igConstLin(n), true
	}
	if tv, okc := F.info.Types[e]; okc && tv.IsNil() {
		return igConstLin(0), igConstLin(0), true
	}
	if !igIsSlice(t) && !igIsString(t) {
		return igLin{}, igLin{}, false
	}
	unknown := func() (igLin, igLin, bool) {
		l := igAnon(igNonNeg)
		return l, igAnon(igNonNeg), true
	}
	switch v := e.(type) {
	case *ast.Ident, *ast.SelectorExpr:
		if n, okn := F.lenNode(e); okn {
			ln = E.nodeLin(n)
			if c, okc := F.capNode(e); okc {
				return ln, E.nodeLin(c), true
			}
			return ln, ln, true
		}
		return unknown()
	case *ast.SliceExpr:
		bl, bc, okb := E.seqVal(v.X)
		if !okb {
			return unknown()
		}
		lo := igConstLin(0)
		if v.Low != nil {
			lo = E.eval(v.Low)
		}
		hi := bl
		if v.High != nil {
			hi = E.eval(v.High)
		}
		mx := bc
		if v.Max != nil {
			mx = E.eval(v.Max)
		}
		ln = E.simplify(hi.minus(lo))
		cp = E.simplify(mx.minus(lo))
		if igIsString(t) {
			cp = ln
		}
		return ln, cp, true
	case *ast.CallExpr:
		switch F.builtin(v) {
		case "make":
			if len(v.Args) >= 2 {
				ln = E.eval(v.Args[1])
				cp = ln
				if len(v.Args) >= 3 {
					cp = E.eval(v.Args[2])
				}
				return ln, cp, true
			}
			return unknown()
		case "append":
			if len(v.Args) >= 1 {
				al, _, oka := E.seqVal(v.Args[0])
				if oka {
					if v.Ellipsis.IsValid() && len(v.Args) == 2 {
						bl, _, okb := E.seqVal(v.Args[1])
						if okb {
							ln = al.plus(bl)
						} else {
							ln = al.plus(igAnon(igNonNeg))
						}
					} else {
						ln = al.plusConst(int64(len(v.Args) - 1))
					}
					cp = ln.plus(igAnon(igNonNeg))
					return ln, cp, true
				}
			}
			return unknown()
		}
		if ct, okc := F.isConversion(v); okc && (igIsSlice(ct) || igIsString(ct)) {
			al, ac, oka := E.seqVal(v.Args[0])
			if oka {
				at := F.typeOf(v.Args[0])
				if igIsSlice(at) && igIsSlice(ct) {
					return al, ac, true // a conversion between slice types: the same header
				}
				if tv, okn := F.info.Types[v.Args[0]]; okn && tv.IsNil() {
					return al, ac, true
				}
				if igIsInteger(at) {
					return unknown() // string(rune)
				}
				return al, al.plus(igAnon(igNonNeg)), true
			}
		}
		return unknown()
	case *ast.CompositeLit:
		n := int64(0)
		for _, el := range v.Elts {
			if _, keyed := el.(*ast.KeyValueExpr); keyed {
				return unknown()
			}
			n++
		}
		return igConstLin(n), igConstLin(n), true
	}
	return unknown()
}

// simplify: a difference x - y + k whose value the matrix pins to a single
// number is that constant (len(buffer) - dictSize with len(buffer) = dictSize + 4).
func (E *igEnv) simplify(l igLin) igLin {
	if E.m == nil || l.bottom || len(l.co) != 2 || !l.iv.isPoint() {
		return l
	}
	x, y := 0, 0
	for n, c := range l.co {
		switch c {
		case 1:
			x = n
		case -1:
			y = n
		}
	}
	if x == 0 || y == 0 {
		return l
	}
	if E.m[x][y] < igInf && E.m[y][x] < igInf && E.m[x][y] == -E.m[y][x] {
		return igLin{iv: igPt(E.m[x][y] + l.iv.lo), owned: true}
	}
	return l
}

// describe renders a linear form.
func (F *igFn) describe(l igLin) string {
	var parts []string
	for _, n := range l.nodes() {
		c := l.co[n]
		nm := F.nodes[n].name
		switch {
		case c == 1:
			parts = append(parts, "+"+nm)
		case c == -1:
			parts = append(parts, "-"+nm)
		case c > 0:
			parts = append(parts, fmt.Sprintf("+%d*%s", c, nm))
		default:
			parts = append(parts, fmt.Sprintf("%d*%s", c, nm))
		}
	}
	s := strings.TrimPrefix(strings.Join(parts, " "), "+")
	if !(l.iv.isPoint() && l.iv.lo == 0) || s == "" {
		if l.iv.isPoint() {
			if s == "" {
				return fmt.Sprint(l.iv.lo)
			}
			s += fmt.Sprintf(" %+d", l.iv.lo)
		} else {
			s += " + " + l.iv.String()
		}
	}
	return s
}
