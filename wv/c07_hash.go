package main

// C07, rule family H (hash verification typestate) over the Wuffs ASTs of std/.
//
// For every (decoder function, hasher) row of hRows a path-sensitive search
// over the function's control-flow graph (wflow_h.go) runs a small automaton:
//
//   hasher state   C (clean: initial or just reset) / D (data hashed, not yet
//                  verified) / V (verified: the unit's checksum was compared)
//   region state   per `IO.since(mark: M)` slice the hasher is fed with:
//                  none / marked / marked-and-advanced
//   gap            some bytes of the current unit were produced/consumed but
//                  can no longer be hashed (suspension or re-mark before update)
//
// under the standing assumption `ignore_checksum == false`, remembering on each
// path what the conditions said about configuration expressions (this.field,
// args.param, constants), so that `if not ignore { reset }` … `if not ignore {
// update }` are correlated, as are `checksummer == 2` at the update and at the
// comparison.
//
//   H.compare  success exit (or reset) while D: hashed data never compared
//   H.reset    update while V: the next unit's hash would cover the previous one
//   H.update   a verifying comparison although some bytes escaped the hasher
//   H.mark     the slice handed to the hasher is not "everything since the mark
//              taken after the last suspension/update"
//   H.ignore   the ignore flag is written only by the quirk setter and read only
//              to skip verification work, never to change what is consumed
//
// "have" = value data-flows from the hasher (update_u32 / checksum_u32 / … result,
// or a field accumulated through a CRC table), "want" = value data-flows from a
// read/peek of an io_reader and not from a hasher; neither is found by name.

import (
	"fmt"
	"math/big"
	"regexp"
	"sort"
	"strconv"
	"strings"

	"wv/core"

	a "github.com/google/wuffs/lang/ast"
	t "github.com/google/wuffs/lang/token"
)

type hAssume struct {
	field    string // receiver field
	idxConst string // optional: index = idxConst - idxMinus (package constants)
	idxMinus string
	idx      int64 // optional literal index (idxConst == "" and idx >= 0)
	val      int64
	why      string
}

type hRow struct {
	pkg, fn, hasher string
	entry           byte // state of the hasher when the function is entered
	exitDirtyOK     bool // the unit may legitimately stay open across a successful return
	assume          []hAssume
	skip            bool
	reason          string
}

var hRows = []hRow{
	{pkg: "gzip", fn: "do_transform_io", hasher: "checksum", entry: 'C',
		reason: "one member per decoder object: CRC-32 of everything written to dst, compared with the trailer's CRC32 field"},
	{pkg: "zlib", fn: "do_transform_io", hasher: "checksum", entry: 'C',
		assume: []hAssume{{field: "quirks", idxConst: "QUIRK_JUST_RAW_DEFLATE", idxMinus: "QUIRKS_BASE", idx: -1, val: 0, why: "raw-deflate mode has no header and no Adler-32 trailer by definition"}},
		reason: "Adler-32 of everything written to dst, compared with the ADLER32 trailer"},
	{pkg: "lzip", fn: "do_transform_io", hasher: "crc32", entry: 'C',
		reason: "one CRC-32 per member; members are concatenated, so the hasher is reset between them"},
	{pkg: "xz", fn: "do_transform_io", hasher: "crc32", entry: 'V',
		reason: "CRC-32 of each block header, of each block's data (check type 1), of the index and of the footer"},
	{pkg: "xz", fn: "do_transform_io", hasher: "crc64", entry: 'V',
		reason: "CRC-64 of each block's data (check type 4)"},
	{pkg: "xz", fn: "do_transform_io", hasher: "sha256", entry: 'V',
		reason: "SHA-256 of each block's data (check type 10)"},
	{pkg: "png", fn: "do_decode_image_config", hasher: "crc32", entry: 'V',
		reason: "CRC-32 of IHDR and of every critical chunk before IDAT (type + data); may be re-entered after a metadata report, so nothing is assumed about the hasher on entry"},
	{pkg: "png", fn: "decode_pass", hasher: "crc32", entry: 'D', exitDirtyOK: true,
		assume: []hAssume{{field: "chunk_type_array", idx: 0, val: 'I', why: "only IDAT checksums are verified; fdAT chunk CRCs are read and skipped by design"}},
		reason: "CRC-32 of every IDAT chunk; the chunk is opened by the caller (do_decode_frame) and may span several passes, so entry and exit are mid-unit"},
	{pkg: "bzip2", fn: "do_transform_io", hasher: "block_checksum_have", entry: 'V',
		reason: "per-block CRC (accumulated byte by byte in flush_fast/flush_slow), compared with the block header's CRC"},
	{pkg: "bzip2", fn: "do_transform_io", hasher: "final_checksum_have", entry: 'C',
		reason: "stream CRC folded from the block CRCs, compared with the end-of-stream CRC"},

	{pkg: "zlib", fn: "add_dictionary", hasher: "dict_id_hasher", skip: true, reason: "Adler-32 of the preset dictionary: an identifier looked up against DICTID, not a checksum of decoded data"},
	{pkg: "zlib", fn: "add_dictionary", hasher: "dict_id_have", skip: true, reason: "same"},
	{pkg: "zlib", fn: "do_transform_io", hasher: "dict_id_have", skip: true, reason: "same (compared with DICTID, leads to dictionary statuses)"},
	{pkg: "png", fn: "do_decode_frame", hasher: "crc32", skip: true, reason: "opens the first IDAT chunk's CRC and hands over to decode_pass: inter-procedural, not decided"},
	{pkg: "bzip2", fn: "flush_fast", hasher: "block_checksum_have", skip: true, reason: "byte-level accumulation (copy-in / table step per written byte / copy-out): decided by H.step.write and H.step.copy instead"},
	{pkg: "bzip2", fn: "flush_slow", hasher: "block_checksum_have", skip: true, reason: "same"},
}

// ---------------------------------------------------------------- package facts

type hPkg struct {
	p         *WPkg
	ms        *whModsets
	hasherFld map[string]bool                      // "this.crc32": field of a type implementing base.hasher_*
	accFld    map[string]bool                      // "this.block_checksum_have": numeric field fed from a hasher / CRC table
	taintFld  map[string]bool                      // fields fed from io_reader reads
	crcTables map[string]bool                      // constant tables that equal a CRC table by value
	locIDs    map[*a.Func]map[t.ID]map[string]bool // hash ids of locals
	locTaint  map[*a.Func]map[t.ID]bool
	fieldType map[string]*a.TypeExpr
}

func (h *hPkg) keyer(f *a.Func) *whKeyer {
	k := &whKeyer{p: h.p, locals: map[t.ID]bool{}}
	whStmtWalk(f.Body(), func(o *a.Node) {
		if o.Kind() == a.KVar {
			k.locals[o.AsVar().Name()] = true
		}
	})
	return k
}

func isIOExpr(e *a.Expr) bool {
	return e != nil && e.MType() != nil && e.MType().IsIOType()
}

func isReaderExpr(e *a.Expr) bool {
	return e != nil && e.MType() != nil && e.MType().IsIOType() && e.MType().QID()[1] == t.IDIOReader
}

var hValueMeths = map[string]bool{"update_u32": true, "update_u64": true, "update_bitvec256": true, "checksum_u32": true, "checksum_u64": true, "checksum_bitvec256": true}
var hUpdateMeths = map[string]bool{"update": true, "update_u32": true, "update_u64": true, "update_bitvec256": true}

// ids returns the hashers an expression's value derives from.
func (h *hPkg) ids(f *a.Func, k *whKeyer, e *a.Expr, into map[string]bool) {
	whWalkExpr(e, func(x *a.Expr) {
		switch {
		case x.Operator() == a.ExprOperatorCall:
			if rcv, meth, _, ok := x.IsMethodCall(); ok && hValueMeths[h.p.str(meth)] {
				if r := k.key(rcv); h.hasherFld[r] {
					into[r] = true
				}
			}
		case x.Operator() == a.ExprOperatorSelector:
			if fld := x.IsThisDotFoo(); fld != 0 && h.accFld["this."+h.p.str(fld)] {
				into["this."+h.p.str(fld)] = true
			}
		case x.Operator() == a.ExprOperatorIndex:
			if l := x.LHS().AsExpr(); l.Operator() == 0 && h.crcTables[h.p.str(l.Ident())] {
				into["@"+h.p.str(l.Ident())] = true
			}
		case x.Operator() == 0 && x.ConstValue() == nil:
			for id := range h.locIDs[f][x.Ident()] {
				into[id] = true
			}
		}
	})
}

func (h *hPkg) tainted(f *a.Func, k *whKeyer, e *a.Expr) bool {
	res := false
	whWalkExpr(e, func(x *a.Expr) {
		switch {
		case x.Operator() == a.ExprOperatorCall:
			if rcv, meth, _, ok := x.IsMethodCall(); ok && isReaderExpr(rcv) {
				if m := h.p.str(meth); strings.HasPrefix(m, "read_") || strings.HasPrefix(m, "peek_") {
					res = true
				}
			}
		case x.Operator() == a.ExprOperatorSelector:
			if fld := x.IsThisDotFoo(); fld != 0 && h.taintFld["this."+h.p.str(fld)] {
				res = true
			}
		case x.Operator() == 0 && x.ConstValue() == nil:
			if h.locTaint[f][x.Ident()] {
				res = true
			}
		}
	})
	return res
}

// crcTableKind recognises a 256-entry constant table as a CRC table by value.
func crcTableKind(vals [][]*big.Int) string {
	if len(vals) != 1 || len(vals[0]) != 256 {
		return ""
	}
	msb := true
	for i := 0; i < 256 && msb; i++ {
		x := uint32(i) << 24
		for j := 0; j < 8; j++ {
			if x&0x80000000 != 0 {
				x = (x << 1) ^ 0x04C11DB7
			} else {
				x <<= 1
			}
		}
		msb = vals[0][i].Cmp(new(big.Int).SetUint64(uint64(x))) == 0
	}
	if msb {
		return "CRC-32 (MSB first, polynomial 0x04C11DB7)"
	}
	return ""
}

func newHPkg(p *WPkg, all map[string]*WPkg) *hPkg {
	h := &hPkg{p: p, ms: whBuildModsets(p), hasherFld: map[string]bool{}, accFld: map[string]bool{}, taintFld: map[string]bool{},
		crcTables: map[string]bool{}, locIDs: map[*a.Func]map[t.ID]map[string]bool{}, locTaint: map[*a.Func]map[t.ID]bool{}, fieldType: map[string]*a.TypeExpr{}}
	for _, s := range p.Structs {
		for _, fn := range s.Fields() {
			fld := fn.AsField()
			ty := fld.XType()
			h.fieldType["this."+p.str(fld.Name())] = ty
			if ty.Decorator() != 0 {
				continue
			}
			q := ty.QID()
			if q[0] == 0 || q[0] == t.IDBase {
				continue
			}
			if up := all[p.str(q[0])]; up != nil {
				for _, us := range up.Structs {
					if up.str(us.QID()[1]) != p.str(q[1]) {
						continue
					}
					for _, im := range us.Implements() {
						iq := im.AsTypeExpr().QID()
						if iq[0] == t.IDBase && strings.HasPrefix(up.str(iq[1]), "hasher_") {
							h.hasherFld["this."+p.str(fld.Name())] = true
						}
					}
				}
			}
		}
	}
	for _, c := range p.Consts {
		if vals, ok := flattenConst(c.Value()); ok && crcTableKind(vals) != "" {
			h.crcTables[p.str(c.QID()[1])] = true
		}
	}
	keyers := map[*a.Func]*whKeyer{}
	for _, f := range p.Funcs {
		keyers[f] = h.keyer(f)
		h.locIDs[f] = map[t.ID]map[string]bool{}
		h.locTaint[f] = map[t.ID]bool{}
	}
	for changed := true; changed; {
		changed = false
		for _, f := range p.Funcs {
			k := keyers[f]
			whStmtWalk(f.Body(), func(o *a.Node) {
				if o.Kind() != a.KAssign {
					return
				}
				as := o.AsAssign()
				ids := map[string]bool{}
				h.ids(f, k, as.RHS(), ids)
				tn := h.tainted(f, k, as.RHS())
				lhs := as.LHS()
				if lhs == nil {
					return
				}
				root := k.rootOf(lhs)
				switch {
				case lhs.Operator() == 0 && k.locals[lhs.Ident()]:
					m := h.locIDs[f][lhs.Ident()]
					if m == nil {
						m = map[string]bool{}
						h.locIDs[f][lhs.Ident()] = m
					}
					for id := range ids {
						if !m[id] {
							m[id] = true
							changed = true
						}
					}
					if tn && !h.locTaint[f][lhs.Ident()] {
						h.locTaint[f][lhs.Ident()] = true
						changed = true
					}
				case strings.HasPrefix(root, "local:"):
					// element of a local array
					id := lhsRoot(lhs).Ident()
					if tn && !h.locTaint[f][id] {
						h.locTaint[f][id] = true
						changed = true
					}
				case strings.HasPrefix(root, "this."):
					if len(ids) > 0 && !h.hasherFld[root] && !h.accFld[root] && k.key(lhs) == root {
						if ty := h.fieldType[root]; ty != nil && ty.IsNumType() {
							h.accFld[root] = true
							changed = true
						}
					}
					if tn && !h.taintFld[root] {
						h.taintFld[root] = true
						changed = true
					}
				}
			})
		}
	}
	return h
}

// directUses lists, per function, the hashers it touches itself (events, not reads).
func (h *hPkg) directUses(f *a.Func) map[string]bool {
	out := map[string]bool{}
	k := h.keyer(f)
	whStmtWalk(f.Body(), func(o *a.Node) {
		if o.Kind() == a.KAssign {
			if r := k.rootOf(o.AsAssign().LHS()); h.accFld[r] {
				out[r] = true
			}
		}
		for _, e := range whStmtExprs(o) {
			whWalkExpr(e, func(x *a.Expr) {
				if x.Operator() == a.ExprOperatorCall {
					if rcv, _, _, ok := x.IsMethodCall(); ok && !x.Effect().Pure() {
						if r := k.key(rcv); h.hasherFld[r] {
							out[r] = true
						}
					}
				}
				if x.Operator() == a.ExprOperatorSelector {
					if fld := x.IsThisDotFoo(); fld != 0 && h.accFld["this."+h.p.str(fld)] {
						// a comparison of an accumulator is a use as well
						out["this."+h.p.str(fld)] = true
					}
				}
			})
		}
	})
	return out
}

// ---------------------------------------------------------------- per-row analysis

type hEvKind int

const (
	evReset hEvKind = iota + 1
	evUpdate
	evNeutral
	evMark
	evMarkKill
	evProd
	evOpaque
	evWantRead  // W = <reader>.read…() where W is the want operand of a comparison of this hasher
	evWantOther // any other assignment to such a W
	evHaveFresh // L = <value of this hasher>: L now holds the hasher's current value
	evHaveCopy  // L = <expression over other have-variables>
)

type hEvent struct {
	kind   hEvKind
	region int      // evUpdate with a since-slice: region index, else -1
	io     string   // evMark
	mark   string   // evMark / evMarkKill
	ios    []string // evProd
	what   string
}

type hRegion struct {
	io, mark string
	writer   bool // IO is an io_writer: the decoded output
}

type hCmp struct {
	eqKey string
	roots []string
	want  string   // the want side when it is a plain local variable
	haves []string // local variables on the have side that carry the hasher's value
	word  int      // have side is `v.get_u64(i: word)` of a multi-word digest, else -1
	words int      // number of 64-bit words of that digest
}

type hRowAn struct {
	h       *hPkg
	f       *a.Func
	g       *whCFG
	k       *whKeyer
	hid     string
	isAcc   bool
	row     hRow
	regions []hRegion
	events  map[int][]hEvent
	cmps    map[int][]hCmp
	paired  map[int]map[int]bool // producer node -> region -> paired
	undec   []string

	errs        map[string][]string
	nStates     int
	verifyAt    map[int]bool
	resetAt     map[int]bool // reset nodes reached while V
	updAt       map[int]bool // region updates reached
	prodAt      map[int]bool
	markAt      map[int]bool
	plainUpd    map[int]bool
	allResets   map[int]bool
	wantLocals  map[string]bool
	wantTracked map[string]bool // want variables that are assigned directly from a stream read somewhere
	haveLocals  map[string]bool
	staleNotes  []string
	wantReads   map[int]bool
	words       map[int]bool // digest words seen in verifying comparisons
	nWords      int
}

// sinceArg recognises `IO.since(mark: M)` with M a local variable.
func (r *hRowAn) sinceArg(e *a.Expr) (io, mark string, writer, ok bool) {
	rcv, meth, args, isCall := e.IsMethodCall()
	if !isCall || r.h.p.str(meth) != "since" || !isIOExpr(rcv) || len(args) != 1 {
		return "", "", false, false
	}
	m := args[0].AsArg().Value()
	if m.Operator() != 0 || !r.k.locals[m.Ident()] {
		return "", "", false, false
	}
	return r.k.key(rcv), r.h.p.str(m.Ident()), !isReaderExpr(rcv), true
}

func (r *hRowAn) regionIndex(io, mark string, writer bool) int {
	for i, x := range r.regions {
		if x.io == io && x.mark == mark {
			return i
		}
	}
	r.regions = append(r.regions, hRegion{io, mark, writer})
	return len(r.regions) - 1
}

// classify computes the events of every node for the row's hasher.
func (r *hRowAn) classify() {
	p := r.h.p
	recv := p.str(r.f.Receiver()[1])
	for _, n := range r.g.nodes {
		var evs []hEvent
		for _, x := range n.callsOf() {
			rcv, meth, args, ok := x.IsMethodCall()
			if !ok {
				continue
			}
			mname := p.str(meth)
			switch {
			case !r.isAcc && r.k.key(rcv) == r.hid:
				switch {
				case mname == "reset" && !x.Effect().Pure():
					evs = append(evs, hEvent{kind: evReset, region: -1, what: "reset"})
				case hUpdateMeths[mname]:
					ev := hEvent{kind: evUpdate, region: -1, what: mname}
					if len(args) == 1 {
						if io, mk, wr, ok := r.sinceArg(args[0].AsArg().Value()); ok {
							ev.region = r.regionIndex(io, mk, wr)
						}
					}
					evs = append(evs, ev)
				case !x.Effect().Pure():
					evs = append(evs, hEvent{kind: evOpaque, what: "impure method " + mname + " on the hasher"})
				}
			case rcv.Operator() == 0 && rcv.Ident() == t.IDThis && !x.Effect().Pure():
				if r.h.ms.of(recv + "." + mname)[r.hid] {
					if r.isAcc {
						evs = append(evs, hEvent{kind: evUpdate, region: -1, what: "call of " + mname + " (writes the accumulator)"})
					} else {
						evs = append(evs, hEvent{kind: evOpaque, what: "the hasher is driven inside callee " + mname})
					}
				}
			}
			// a call that is handed an I/O stream may advance it
			if !isIOExpr(rcv) {
				var ios []string
				for _, ar := range args {
					if v := ar.AsArg().Value(); isIOExpr(v) {
						ios = append(ios, r.k.key(v))
					}
				}
				if len(ios) > 0 {
					evs = append(evs, hEvent{kind: evProd, ios: ios, what: "call of " + mname})
				}
			}
		}
		if n.stmt != nil && n.stmt.Kind() == a.KAssign {
			as := n.stmt.AsAssign()
			lhs, rhs := as.LHS(), as.RHS()
			if lhs != nil && lhs.Operator() == 0 && r.k.locals[lhs.Ident()] {
				name := p.str(lhs.Ident())
				if rcv, meth, args, ok := rhs.IsMethodCall(); ok && p.str(meth) == "mark" && isIOExpr(rcv) && len(args) == 0 && as.Operator() == t.IDEq {
					evs = append(evs, hEvent{kind: evMark, io: r.k.key(rcv), mark: name})
				} else {
					evs = append(evs, hEvent{kind: evMarkKill, mark: name})
				}
			}
			if r.isAcc && lhs != nil && r.k.rootOf(lhs) == r.hid {
				switch {
				case r.k.key(lhs) != r.hid:
					evs = append(evs, hEvent{kind: evOpaque, what: "partial write of the accumulator"})
				case as.Operator() == t.IDEq && rhs.ConstValue() != nil:
					evs = append(evs, hEvent{kind: evReset, region: -1, what: "re-initialisation with a constant"})
				case rhs.ConstValue() != nil:
					evs = append(evs, hEvent{kind: evNeutral, what: "finalisation with a constant"})
				default:
					evs = append(evs, hEvent{kind: evUpdate, region: -1, what: "accumulation"})
				}
			}
		}
		if len(evs) > 0 {
			r.events[n.id] = evs
		}
		// comparison atoms have-vs-want in branch conditions
		if n.kind == whBranch {
			whWalkExpr(n.cond, func(x *a.Expr) {
				if op := x.Operator(); op != t.IDXBinaryEqEq && op != t.IDXBinaryNotEq {
					return
				}
				l, rr := x.LHS().AsExpr(), x.RHS().AsExpr()
				for i := 0; i < 2; i++ {
					li, ri := map[string]bool{}, map[string]bool{}
					r.h.ids(r.f, r.k, l, li)
					r.h.ids(r.f, r.k, rr, ri)
					for id := range li {
						if strings.HasPrefix(id, "@") {
							delete(li, id)
						}
					}
					if len(li) == 1 && li[r.hid] && len(ri) == 0 && rr.ConstValue() == nil && r.h.tainted(r.f, r.k, rr) {
						roots, _ := r.k.roots(x)
						cm := hCmp{eqKey: r.k.key(x), roots: roots, word: -1}
						if rr.Operator() == 0 && r.k.locals[rr.Ident()] {
							cm.want = r.h.p.str(rr.Ident())
							r.wantLocals[cm.want] = true
						}
						whWalkExpr(l, func(y *a.Expr) {
							if y.Operator() == 0 && r.k.locals[y.Ident()] && r.h.locIDs[r.f][y.Ident()][r.hid] {
								cm.haves = append(cm.haves, r.h.p.str(y.Ident()))
								r.haveLocals[r.h.p.str(y.Ident())] = true
							}
						})
						if rcv, meth, args, ok := l.IsMethodCall(); ok && r.h.p.str(meth) == "get_u64" && len(args) == 1 && rcv.MType() != nil {
							if bits := bitvecBits(r.h.p, rcv.MType()); bits > 0 {
								if cv := args[0].AsArg().Value().ConstValue(); cv != nil && cv.IsInt64() {
									cm.word, cm.words = int(cv.Int64()), bits/64
								} else {
									r.undec = append(r.undec, fmt.Sprintf("%s: digest word index is not a constant", r.g.pos(n)))
								}
							}
						}
						r.cmps[n.id] = append(r.cmps[n.id], cm)
						return
					}
					l, rr = rr, l
				}
			})
		}
	}
	// assignments to a variable that some comparison of this hasher uses as its want side
	for _, n := range r.g.nodes {
		if n.stmt == nil || n.stmt.Kind() != a.KAssign {
			continue
		}
		as := n.stmt.AsAssign()
		lhs, rhs := as.LHS(), as.RHS()
		if lhs == nil || lhs.Operator() != 0 || !r.wantLocals[p.str(lhs.Ident())] {
			continue
		}
		kind := evWantOther
		if rcv, meth, _, ok := rhs.IsMethodCall(); ok && as.Operator() == t.IDEq && isReaderExpr(rcv) && strings.HasPrefix(p.str(meth), "read_") {
			kind = evWantRead
		}
		r.events[n.id] = append(r.events[n.id], hEvent{kind: kind, mark: p.str(lhs.Ident()), region: -1})
		if kind == evWantRead {
			r.wantTracked[p.str(lhs.Ident())] = true
		}
	}
	// assignments to a variable that carries the hasher's value into a comparison
	for _, n := range r.g.nodes {
		if n.stmt == nil || n.stmt.Kind() != a.KAssign {
			continue
		}
		as := n.stmt.AsAssign()
		lhs, rhs := as.LHS(), as.RHS()
		if lhs == nil || lhs.Operator() != 0 || !r.haveLocals[p.str(lhs.Ident())] {
			continue
		}
		ev := hEvent{kind: evHaveCopy, mark: p.str(lhs.Ident()), region: -1}
		whWalkExpr(rhs, func(y *a.Expr) {
			if y.Operator() == a.ExprOperatorCall {
				if rcv, meth, _, ok := y.IsMethodCall(); ok && hValueMeths[p.str(meth)] && r.k.key(rcv) == r.hid {
					ev.kind = evHaveFresh
				}
			}
			if y.Operator() == 0 && r.haveLocals[p.str(y.Ident())] {
				ev.ios = append(ev.ios, p.str(y.Ident()))
			}
			if fld := y.IsThisDotFoo(); fld != 0 && "this."+p.str(fld) == r.hid {
				ev.kind = evHaveFresh // a copy of the accumulator field itself
			}
		})
		if as.Operator() != t.IDEq {
			ev.ios = append(ev.ios, ev.mark)
		}
		r.events[n.id] = append(r.events[n.id], ev)
	}
}

// flag sets are kept as sorted, '|'-separated strings inside the search state
func flagHas(set, name string) bool {
	for _, x := range strings.Split(set, "|") {
		if x == name {
			return true
		}
	}
	return false
}

func flagSet(set, name string, on bool) string {
	var out []string
	for _, x := range strings.Split(set, "|") {
		if x != "" && x != name {
			out = append(out, x)
		}
	}
	if on {
		out = append(out, name)
	}
	sort.Strings(out)
	return strings.Join(out, "|")
}

// pair decides which stream-advancing calls are obligations of which slice. A call that is
// handed an io_writer the hasher is fed slices of (anywhere in the function) produces decoded
// output: it always belongs to that slice. A call that is handed an io_reader belongs to region
// (IO, M) when, still within the same unit (before the hasher is reset; branches decided by the
// standing assumptions are not taken the other way), the hasher is fed IO.since(mark: M).
func (r *hRowAn) pair(initial whFacts) {
	for _, n := range r.g.nodes {
		for _, ev := range r.events[n.id] {
			if ev.kind != evProd {
				continue
			}
			for ri, reg := range r.regions {
				has := false
				for _, io := range ev.ios {
					if io == reg.io {
						has = true
					}
				}
				if !has {
					continue
				}
				seen := map[int]bool{}
				var stack []int
				for _, e := range n.succ {
					stack = append(stack, e.to)
				}
				// the output stream: whatever is produced into it is data the checksum is about
				found := reg.writer
				for len(stack) > 0 && !found {
					id := stack[len(stack)-1]
					stack = stack[:len(stack)-1]
					if seen[id] {
						continue
					}
					seen[id] = true
					stop := false
					for _, e2 := range r.events[id] {
						if e2.kind == evUpdate && e2.region == ri {
							found = true
						}
						if e2.kind == evReset {
							stop = true
						}
					}
					if stop {
						continue
					}
					for _, e := range r.g.nodes[id].succ {
						if e.cond != nil {
							if v := r.k.eval(e.cond, initial); v != whU && (v == whT) != e.taken {
								continue
							}
						}
						stack = append(stack, e.to)
					}
				}
				if found {
					if r.paired[n.id] == nil {
						r.paired[n.id] = map[int]bool{}
					}
					r.paired[n.id][ri] = true
				}
			}
		}
	}
}

// bitvecBits returns N for the built-in type base.bitvecN.
func bitvecBits(p *WPkg, ty *a.TypeExpr) int {
	if ty.Decorator() != 0 || ty.QID()[0] != t.IDBase {
		return 0
	}
	if nm := p.str(ty.QID()[1]); strings.HasPrefix(nm, "bitvec") {
		n, _ := strconv.Atoi(strings.TrimPrefix(nm, "bitvec"))
		return n
	}
	return 0
}

func (r *hRowAn) isBadChecksumRet(n *whNode) bool {
	if n.kind != whRet {
		return false
	}
	v := n.stmt.AsRet().Value()
	if v == nil || v.Operator() != 0 || !v.Ident().IsDQStrLiteral(r.h.p.TM) {
		return false
	}
	s, _ := t.Unescape(r.h.p.str(v.Ident()))
	return s == "#bad checksum"
}

// leadsToBad: from node id, under the facts, control reaches `return "#bad checksum"`
// through nothing but decided or jointly-bad branches.
func (r *hRowAn) leadsToBad(id int, fs whFacts, depth int) bool {
	if depth > 8 {
		return false
	}
	n := r.g.nodes[id]
	switch n.kind {
	case whRet:
		return r.isBadChecksumRet(n)
	case whBranch:
		any := false
		for _, e := range n.succ {
			nf, ok := r.k.assume(e.cond, e.taken, fs)
			if !ok {
				continue
			}
			any = true
			if !r.leadsToBad(e.to, nf, depth+1) {
				return false
			}
		}
		return any
	}
	return false
}

type hState struct {
	node  int
	hs    byte
	gap   bool
	pend  string // a trailer value was read into this want-variable while data was hashed; not compared yet
	old   string // flag set: "h:L" = have-variable L predates the hasher's last update; "w:W" = want-variable W was not read since it was last compared
	reg   string // one byte per region: '0' none, '1' marked, '2' advanced
	facts whFacts
	key   string
	par   *hState
	note  string
}

func (s *hState) mkKey() {
	s.key = strconv.Itoa(s.node) + "|" + string(s.hs) + "|" + strconv.FormatBool(s.gap) + "|" + s.pend + "|" + s.old + "||" + s.reg + "|" + s.facts.canon()
}

func (r *hRowAn) witness(s *hState, last string) string {
	var steps []string
	for x := s; x != nil; x = x.par {
		if x.note != "" {
			steps = append(steps, x.note)
		}
	}
	for i, j := 0, len(steps)-1; i < j; i, j = i+1, j-1 {
		steps[i], steps[j] = steps[j], steps[i]
	}
	if len(steps) > 14 {
		steps = append([]string{"…"}, steps[len(steps)-14:]...)
	}
	steps = append(steps, last)
	return strings.Join(steps, " → ")
}

func (r *hRowAn) fail(rule string, s *hState, msg string) {
	if len(r.errs[rule]) < 3 {
		r.errs[rule] = append(r.errs[rule], r.witness(s, msg))
	}
}

const hMaxStates = 400000

func (r *hRowAn) search(initial whFacts) {
	start := &hState{node: r.g.entry, hs: r.row.entry, reg: strings.Repeat("0", len(r.regions)), facts: initial}
	for l := range r.haveLocals {
		start.old = flagSet(start.old, "h:"+l, true)
	}
	for w := range r.wantTracked {
		start.old = flagSet(start.old, "w:"+w, true)
	}
	allStale := func(old string) string {
		for l := range r.haveLocals {
			old = flagSet(old, "h:"+l, true)
		}
		return old
	}
	start.mkKey()
	seen := map[string]bool{start.key: true}
	queue := []*hState{start}
	push := func(par *hState, node int, hs byte, gap bool, pend, old string, reg string, fs whFacts, note string) {
		s := &hState{node: node, hs: hs, gap: gap, pend: pend, old: old, reg: reg, facts: fs, par: par, note: note}
		s.mkKey()
		if seen[s.key] {
			return
		}
		seen[s.key] = true
		queue = append(queue, s)
	}
	for len(queue) > 0 {
		s := queue[0]
		queue = queue[1:]
		r.nStates++
		if r.nStates > hMaxStates {
			r.undec = append(r.undec, fmt.Sprintf("more than %d (node, automaton, facts) states", hMaxStates))
			return
		}
		n := r.g.nodes[s.node]
		hs, gap, pend, old, reg, fs := s.hs, s.gap, s.pend, s.old, []byte(s.reg), s.facts
		const unread = "a checksum was read from the stream into %s while this hasher held data, but on this path it is never compared with the hasher's value"
		line := func(what string) string { return fmt.Sprintf("%s:%d %s", hShortFile(r.f.Filename()), n.line, what) }
		switch n.kind {
		case whFallOff:
			if hs == 'D' && !r.row.exitDirtyOK {
				r.fail("H.compare", s, "the function completes successfully (end of body) with hashed, unverified data")
			} else if pend != "" {
				r.fail("H.compare", s, "end of body: "+fmt.Sprintf(unread, pend))
			}
			continue
		case whRet:
			if v := n.stmt.AsRet().Value(); v != nil && v.Operator() == 0 && v.Ident() == t.IDOk {
				if hs == 'D' && !r.row.exitDirtyOK {
					r.fail("H.compare", s, line("`return ok` with hashed, unverified data"))
				} else if pend != "" {
					r.fail("H.compare", s, line("`return ok`: "+fmt.Sprintf(unread, pend)))
				}
			}
			continue
		case whYield:
			for i := range reg {
				if reg[i] == '2' {
					gap = true
				}
				reg[i] = '0'
			}
			for _, e := range n.succ {
				push(s, e.to, hs, gap, pend, old, string(reg), fs, line("yield"))
			}
			continue
		case whBranch:
			for _, e := range n.succ {
				nf, ok := r.k.assume(e.cond, e.taken, fs)
				if !ok {
					continue
				}
				nhs, npend, nold, note := hs, pend, old, ""
				for _, c := range r.cmps[n.id] {
					// would a mismatch have taken this edge?
					f2 := fs.clone()
					f2[c.eqKey] = &whFact{eq: whBig0, roots: c.roots}
					if v := r.k.eval(e.cond, f2); v == whU || (v == whT) == e.taken {
						continue
					}
					// the mismatch goes the other way: it must end in "#bad checksum"
					other := -1
					for _, e2 := range n.succ {
						if e2.taken != e.taken {
							other = e2.to
						}
					}
					nf2, ok2 := r.k.assume(e.cond, !e.taken, f2)
					if other < 0 || !ok2 || !r.leadsToBad(other, nf2, 0) {
						continue
					}
					// the two sides must be current: the have-variable taken from the hasher after its
					// last update, the want-variable read from the stream since it was last compared
					staleSide := ""
					for _, l := range c.haves {
						if flagHas(old, "h:"+l) {
							staleSide = l + " was taken from the hasher before its last update (or never)"
						}
					}
					if c.want != "" && r.wantTracked[c.want] && flagHas(old, "w:"+c.want) {
						staleSide = c.want + " was not read from the stream since it was last compared"
					}
					if staleSide != "" {
						if len(r.staleNotes) < 3 {
							r.staleNotes = append(r.staleNotes, line("this comparison does not count: "+staleSide))
						}
						escaped := gap
						for i := range reg {
							if reg[i] == '2' {
								escaped = true
							}
						}
						if escaped {
							r.fail("H.update", s, line("the checksum is compared here, but bytes produced/consumed earlier in this unit were not fed to the hasher"))
						}
						continue
					}
					if c.want != "" && r.wantTracked[c.want] {
						nold = flagSet(nold, "w:"+c.want, true)
					}
					r.verifyAt[n.id] = true
					if c.word >= 0 {
						r.words[c.word] = true
						r.nWords = c.words
					}
					npend = ""
					bad := gap
					for i := range reg {
						if reg[i] == '2' {
							bad = true
						}
					}
					if bad {
						r.fail("H.update", s, line("the checksum is compared here, but bytes produced/consumed earlier in this unit were not fed to the hasher"))
					}
					if hs == 'D' {
						nhs = 'V'
					}
					note = line("compared: have == want")
				}
				push(s, e.to, nhs, gap, npend, nold, string(reg), nf, note)
			}
			continue
		}
		// entry / statement
		dead := false
		note := ""
		for _, ev := range r.events[n.id] {
			switch ev.kind {
			case evOpaque:
				r.undec = append(r.undec, line(ev.what))
				dead = true
			case evHaveFresh:
				old = flagSet(old, "h:"+ev.mark, false)
			case evHaveCopy:
				st := len(ev.ios) == 0
				for _, l := range ev.ios {
					if flagHas(old, "h:"+l) {
						st = true
					}
				}
				old = flagSet(old, "h:"+ev.mark, st)
			case evWantRead:
				r.wantReads[n.id] = true
				old = flagSet(old, "w:"+ev.mark, false)
				if pend != "" && pend == ev.mark {
					r.fail("H.compare", s, line(fmt.Sprintf(unread, pend)+" (overwritten here)"))
					dead = true
				}
				if hs == 'D' {
					pend = ev.mark
					note = line("trailer read into " + ev.mark)
				}
			case evWantOther:
				old = flagSet(old, "w:"+ev.mark, false)
				if pend != "" && pend == ev.mark {
					r.fail("H.compare", s, line(fmt.Sprintf(unread, pend)+" (overwritten here)"))
					dead = true
				}
			case evReset:
				r.allResets[n.id] = true
				if hs == 'D' {
					r.fail("H.compare", s, line("the hasher is "+ev.what+" while it holds hashed data that was never compared"))
					dead = true
				} else if pend != "" {
					r.fail("H.compare", s, line("reset: "+fmt.Sprintf(unread, pend)))
					dead = true
				}
				pend = ""
				old = allStale(old)
				if hs == 'V' {
					r.resetAt[n.id] = true
				}
				hs, gap = 'C', false
				for i := range reg {
					reg[i] = '0'
				}
				note = line(ev.what)
			case evUpdate:
				if hs == 'V' {
					r.fail("H.reset", s, line(ev.what+" after the previous unit was verified, without a reset in between: this unit's hash also covers the previous unit"))
					dead = true
				}
				hs = 'D'
				old = allStale(old)
				if ev.region >= 0 {
					r.updAt[n.id] = true
					if reg[ev.region] == '0' {
						r.fail("H.mark", s, line("the slice "+r.regions[ev.region].io+".since(mark: "+r.regions[ev.region].mark+") is not delimited by a mark taken after the last suspension/update"))
						dead = true
					}
					reg[ev.region] = '0'
				} else {
					r.plainUpd[n.id] = true
				}
				note = line(ev.what)
			case evMark:
				for i, x := range r.regions {
					if x.mark != ev.mark {
						continue
					}
					if x.io == ev.io {
						r.markAt[n.id] = true
						if reg[i] == '2' {
							gap = true
						}
						reg[i] = '1'
					} else {
						reg[i] = '0'
					}
				}
			case evMarkKill:
				for i, x := range r.regions {
					if x.mark == ev.mark {
						if reg[i] == '2' {
							gap = true
						}
						reg[i] = '0'
					}
				}
			case evProd:
				for ri := range r.regions {
					if !r.paired[n.id][ri] {
						continue
					}
					r.prodAt[n.id] = true
					if reg[ri] == '0' {
						r.fail("H.mark", s, line(ev.what+" advances "+r.regions[ri].io+" but no mark was taken since the last suspension/update: these bytes cannot be in the hashed slice"))
						dead = true
					}
					reg[ri] = '2'
					note = line(ev.what)
				}
			}
		}
		if dead {
			continue
		}
		fs = r.g.transfer(r.k, r.h.ms, n, fs)
		for _, e := range n.succ {
			push(s, e.to, hs, gap, pend, old, string(reg), fs, note)
		}
	}
}

func hShortFile(s string) string {
	if i := strings.Index(s, "/std/"); i >= 0 {
		return s[i+1:]
	}
	return s
}

// assumeFacts turns the standing assumption and the row's assumptions into facts.
func (r *hRowAn) assumeFacts(ign string) (whFacts, string) {
	fs := whFacts{}
	if ign != "" {
		fs[ign] = &whFact{eq: whBig0, roots: []string{ign}, pinned: true}
	}
	for _, as := range r.row.assume {
		key := "this." + as.field
		idx := as.idx
		if as.idxConst != "" {
			var c [2]*big.Int
			for i, nm := range []string{as.idxConst, as.idxMinus} {
				for _, k := range r.h.p.Consts {
					if r.h.p.str(k.QID()[1]) == nm {
						c[i] = k.Value().ConstValue()
					}
				}
			}
			if c[0] == nil || c[1] == nil {
				return nil, "constants " + as.idxConst + " / " + as.idxMinus + " not found"
			}
			idx = new(big.Int).Sub(c[0], c[1]).Int64()
		}
		if idx >= 0 {
			key += "[#" + strconv.FormatInt(idx, 10) + "]"
		}
		// the assumed expression must occur in a condition of the function (else the row is stale)
		found := false
		for _, n := range r.g.nodes {
			if n.cond != nil {
				whWalkExpr(n.cond, func(x *a.Expr) {
					if r.k.key(x) == key {
						found = true
					}
				})
			}
		}
		if !found {
			return nil, "assumed expression " + key + " does not occur in any condition of the function"
		}
		fs[key] = &whFact{eq: big.NewInt(as.val), roots: []string{"this." + as.field}}
	}
	return fs, ""
}

// ---------------------------------------------------------------- H.ignore

var hReadWidth = regexp.MustCompile(`^read_u(\d+)(le|be)?(_as_u\d+)?$`)

type hIgnore struct {
	h     *hPkg
	field string // "this.ignore_checksum"
	qic   *big.Int
}

// findIgnoreField locates the flag: the boolean field assigned in set_quirk! on the
// paths where args.key equals base.QUIRK_IGNORE_CHECKSUM.
func (h *hPkg) findIgnoreField(c *core.Ctx) *hIgnore {
	p := h.p
	anchor := "std/" + p.Name + " set_quirk"
	const claim = "the ignore-checksum flag is the field that set_quirk! assigns from args.value exactly when args.key == base.QUIRK_IGNORE_CHECKSUM; while it is false every checksum mismatch must be reported"
	var qic *big.Int
	for _, f := range p.Funcs {
		whStmtWalk(f.Body(), func(o *a.Node) {
			for _, e := range whStmtExprs(o) {
				whWalkExpr(e, func(x *a.Expr) {
					if x.Operator() == a.ExprOperatorSelector && p.str(x.Ident()) == "QUIRK_IGNORE_CHECKSUM" && x.ConstValue() != nil {
						if l := x.LHS().AsExpr(); l.Operator() == 0 && l.Ident() == t.IDBase {
							qic = x.ConstValue()
						}
					}
				})
			}
		})
	}
	if qic == nil {
		c.Undecided("H.ignore.set", anchor, claim, "base.QUIRK_IGNORE_CHECKSUM is not mentioned in std/"+p.Name)
		return nil
	}
	var sq *a.Func
	for _, f := range p.Funcs {
		if p.str(f.FuncName()) == "set_quirk" && f.Public() {
			sq = f
		}
	}
	if sq == nil {
		c.Undecided("H.ignore.set", anchor, claim, "no pub func set_quirk")
		return nil
	}
	g := whBuildCFG(p, sq)
	k := h.keyer(sq)
	if g.unsupported != "" {
		c.Undecided("H.ignore.set", anchor, claim, g.unsupported)
		return nil
	}
	// all (node, facts) states of set_quirk
	type st struct {
		node int
		fs   whFacts
	}
	seen := map[string]bool{}
	queue := []st{{g.entry, whFacts{}}}
	cand := map[string]bool{}
	var bad []string
	for len(queue) > 0 {
		s := queue[0]
		queue = queue[1:]
		n := g.nodes[s.node]
		if n.kind == whBranch {
			for _, e := range n.succ {
				if nf, ok := k.assume(e.cond, e.taken, s.fs); ok {
					if key := strconv.Itoa(e.to) + "|" + nf.canon(); !seen[key] {
						seen[key] = true
						queue = append(queue, st{e.to, nf})
					}
				}
			}
			continue
		}
		if n.stmt != nil && n.stmt.Kind() == a.KAssign {
			as := n.stmt.AsAssign()
			if f := s.fs["args.key"]; f != nil && f.eq != nil && f.eq.Cmp(qic) == 0 {
				if r := k.rootOf(as.LHS()); strings.HasPrefix(r, "this.") && k.key(as.LHS()) == r {
					if ty := h.fieldType[r]; ty != nil && ty.IsBool() {
						cand[r] = true
						form := isNonzeroTest(k, as.RHS(), "args.value")
						if as.Operator() != t.IDEq || !form {
							bad = append(bad, fmt.Sprintf("%s: the flag is not assigned `args.value > 0` (or an equivalent form): %s", g.pos(n), as.RHS().Str(p.TM)))
						}
					}
				}
			}
		}
		nf := g.transfer(k, h.ms, n, s.fs)
		for _, e := range n.succ {
			if key := strconv.Itoa(e.to) + "|" + nf.canon(); !seen[key] {
				seen[key] = true
				queue = append(queue, st{e.to, nf})
			}
		}
	}
	if len(cand) != 1 {
		c.Undecided("H.ignore.set", anchor, claim, fmt.Sprintf("expected exactly one boolean field assigned under args.key == QUIRK_IGNORE_CHECKSUM, found %d", len(cand)))
		return nil
	}
	ig := &hIgnore{h: h, qic: qic}
	for r := range cand {
		ig.field = r
	}
	// every other assignment to the flag is a violation
	n := 0
	for _, f := range p.Funcs {
		kk := h.keyer(f)
		whStmtWalk(f.Body(), func(o *a.Node) {
			if o.Kind() == a.KAssign && kk.rootOf(o.AsAssign().LHS()) == ig.field {
				n++
				if f != sq {
					bad = append(bad, fmt.Sprintf("%s:%d: %s is also written in %s: verification could be switched off without the caller asking for it", f.Filename(), whLine(o), ig.field, p.whFname(f)))
				}
			}
		})
	}
	// inside set_quirk, assignments not under the key test
	gk := h.keyer(sq)
	total := 0
	whStmtWalk(sq.Body(), func(o *a.Node) {
		if o.Kind() == a.KAssign && gk.rootOf(o.AsAssign().LHS()) == ig.field {
			total++
		}
	})
	// states where the flag is assigned without the key fact
	seen2 := map[string]bool{}
	queue = []st{{g.entry, whFacts{}}}
	for len(queue) > 0 {
		s := queue[0]
		queue = queue[1:]
		nd := g.nodes[s.node]
		if nd.kind == whBranch {
			for _, e := range nd.succ {
				if nf, ok := k.assume(e.cond, e.taken, s.fs); ok {
					if key := strconv.Itoa(e.to) + "|" + nf.canon(); !seen2[key] {
						seen2[key] = true
						queue = append(queue, st{e.to, nf})
					}
				}
			}
			continue
		}
		if nd.stmt != nil && nd.stmt.Kind() == a.KAssign && k.rootOf(nd.stmt.AsAssign().LHS()) == ig.field {
			if f := s.fs["args.key"]; f == nil || f.eq == nil || f.eq.Cmp(qic) != 0 {
				bad = append(bad, fmt.Sprintf("%s: %s is written on a path where args.key is not known to equal QUIRK_IGNORE_CHECKSUM", g.pos(nd), ig.field))
			}
		}
		nf := g.transfer(k, h.ms, nd, s.fs)
		for _, e := range nd.succ {
			if key := strconv.Itoa(e.to) + "|" + nf.canon(); !seen2[key] {
				seen2[key] = true
				queue = append(queue, st{e.to, nf})
			}
		}
	}
	c.Check(len(bad) == 0, "H.ignore.set", anchor, claim, n, strings.Join(hUniq(bad), "\n"))
	return ig
}

// isNonzeroTest recognises `x > 0`, `0 < x`, `x <> 0`, `x >= 1`, `1 <= x` for the expression keyed x.
func isNonzeroTest(k *whKeyer, e *a.Expr, x string) bool {
	if e == nil || e.LHS() == nil || e.RHS() == nil || e.RHS().Kind() != a.KExpr {
		return false
	}
	l, r := e.LHS().AsExpr(), e.RHS().AsExpr()
	isX := func(o *a.Expr) bool { return o.ConstValue() == nil && k.key(o) == x }
	isC := func(o *a.Expr, v int64) bool { return o.ConstValue() != nil && o.ConstValue().Cmp(big.NewInt(v)) == 0 }
	switch e.Operator() {
	case t.IDXBinaryNotEq:
		return (isX(l) && isC(r, 0)) || (isX(r) && isC(l, 0))
	case t.IDXBinaryGreaterThan:
		return isX(l) && isC(r, 0)
	case t.IDXBinaryLessThan:
		return isX(r) && isC(l, 0)
	case t.IDXBinaryGreaterEq:
		return isX(l) && isC(r, 1)
	case t.IDXBinaryLessEq:
		return isX(r) && isC(l, 1)
	}
	return false
}

func hUniq(in []string) []string {
	seen := map[string]bool{}
	var out []string
	for _, s := range in {
		if !seen[s] {
			seen[s] = true
			out = append(out, s)
		}
	}
	return out
}

func (ig *hIgnore) mentions(k *whKeyer, e *a.Expr) bool {
	res := false
	whWalkExpr(e, func(x *a.Expr) {
		if x.Operator() == a.ExprOperatorSelector && k.key(x) == ig.field {
			res = true
		}
	})
	return res
}

// ioAdvancing lists the stream-advancing operations of a body (nested statements included).
func ioAdvancing(p *WPkg, body []*a.Node) []*a.Expr {
	var out []*a.Expr
	whStmtWalk(body, func(o *a.Node) {
		for _, e := range whStmtExprs(o) {
			whWalkExpr(e, func(x *a.Expr) {
				if x.Operator() != a.ExprOperatorCall {
					return
				}
				rcv, _, args, ok := x.IsMethodCall()
				if !ok {
					return
				}
				if isIOExpr(rcv) && !x.Effect().Pure() {
					out = append(out, x)
					return
				}
				if !isIOExpr(rcv) {
					for _, ar := range args {
						if isIOExpr(ar.AsArg().Value()) {
							out = append(out, x)
							return
						}
					}
				}
			})
		}
	})
	return out
}

// consumed returns how many bytes a branch body reads from io on its non-error path.
func consumed(p *WPkg, k *whKeyer, body []*a.Node, io string) (int64, bool) {
	var total int64
	for _, o := range body {
		switch o.Kind() {
		case a.KAssign:
			rhs := o.AsAssign().RHS()
			adv := ioAdvancing(p, []*a.Node{o})
			if len(adv) == 0 {
				continue
			}
			rcv, meth, args, ok := rhs.IsMethodCall()
			if len(adv) != 1 || adv[0] != rhs || !ok || k.key(rcv) != io || len(args) != 0 {
				return 0, false
			}
			m := hReadWidth.FindStringSubmatch(p.str(meth))
			if m == nil {
				return 0, false
			}
			bits, _ := strconv.Atoi(m[1])
			total += int64(bits / 8)
		case a.KIf:
			n := o.AsIf()
			if len(ioAdvancing(p, []*a.Node{o})) != 0 || n.ElseIf() != nil || len(n.BodyIfFalse()) != 0 {
				return 0, false
			}
			// `if cond { return "#error" }`: leaves the non-error path
			b := n.BodyIfTrue()
			if len(b) != 1 || b[0].Kind() != a.KRet || !b[0].AsRet().RetsError() {
				return 0, false
			}
		case a.KVar, a.KAssert:
		default:
			if len(ioAdvancing(p, []*a.Node{o})) != 0 {
				return 0, false
			}
		}
	}
	return total, true
}

// checkReads applies the reader discipline to every use of the flag in the package.
func (ig *hIgnore) checkReads(c *core.Ctx) (chains int) {
	p := ig.h.p
	anchor := "std/" + p.Name + " " + strings.TrimPrefix(ig.field, "this.")
	const claim = "the ignore flag only selects whether hashing/comparing is done: it is read in if-conditions only, code that runs only when the flag is false does not advance a stream (otherwise setting the quirk would desynchronise parsing), and code that runs only when it is true skips exactly the trailer bytes the verifying branches read"
	var bad, undec []string
	for _, f := range p.Funcs {
		k := ig.h.keyer(f)
		inCond := map[*a.Expr]bool{}
		var visitChain func(n *a.If)
		visitChain = func(top *a.If) {
			chains++
			type br struct {
				cond       *a.Expr
				body       []*a.Node
				inT, inF   bool
				line       uint32
				isElseTail bool
			}
			var brs []br
			fT := whFacts{ig.field: &whFact{eq: whBig1, roots: []string{ig.field}, pinned: true}}
			fF := whFacts{ig.field: &whFact{eq: whBig0, roots: []string{ig.field}, pinned: true}}
			reachT, reachF := true, true
			var last *a.If
			for n := top; n != nil; n = n.ElseIf() {
				last = n
				vT, vF := k.eval(n.Condition(), fT), k.eval(n.Condition(), fF)
				ln := whLine(n.AsNode())
				if ln == 0 && len(n.BodyIfTrue()) > 0 {
					ln = whLine(n.BodyIfTrue()[0]) // else-if nodes carry no line of their own
				}
				brs = append(brs, br{cond: n.Condition(), body: n.BodyIfTrue(), inT: reachT && vT != whF, inF: reachF && vF != whF, line: ln})
				if vT == whT {
					reachT = false
				}
				if vF == whT {
					reachF = false
				}
			}
			if len(last.BodyIfFalse()) > 0 {
				brs = append(brs, br{body: last.BodyIfFalse(), inT: reachT, inF: reachF, line: whLine(last.AsNode()), isElseTail: true})
			}
			// skip idiom: an only-when-ignored branch `IO.skip_u32?(n: T[S] as …)`
			var skipIO, skipSel string
			var skipTab []*big.Int
			for _, b := range brs {
				if !(b.inT && !b.inF) {
					continue
				}
				adv := ioAdvancing(p, b.body)
				if len(adv) == 0 {
					continue
				}
				okIdiom := false
				if len(adv) == 1 && len(b.body) == 1 && b.body[0].Kind() == a.KAssign && b.body[0].AsAssign().LHS() == nil && b.body[0].AsAssign().RHS() == adv[0] {
					rcv, meth, args, _ := adv[0].IsMethodCall()
					if m := p.str(meth); (m == "skip_u32" || m == "skip") && len(args) == 1 {
						nv := args[0].AsArg().Value()
						if nv.Operator() == t.IDXBinaryAs {
							nv = nv.LHS().AsExpr()
						}
						if tab, sel, ok := nv.IsIndex(); ok && tab.Operator() == 0 {
							for _, cst := range p.Consts {
								if cst.QID()[1] == tab.Ident() {
									if vals, ok := flattenConst(cst.Value()); ok && len(vals) == 1 {
										skipTab, skipIO, skipSel = vals[0], k.key(rcv), k.key(sel)
										okIdiom = true
									}
								}
							}
						}
					}
				}
				if !okIdiom {
					// allowed only-when-ignored work: forwarding the quirk to a sub-decoder
					for _, x := range adv {
						undec = append(undec, fmt.Sprintf("%s:%d: stream operation %s runs only when the flag is set and is not the recognised `skip(n: TABLE[selector])` idiom", f.Filename(), b.line, x.Str(p.TM)))
					}
				}
			}
			covered := map[int64]bool{}
			for _, b := range brs {
				if !(b.inF && !b.inT) {
					continue
				}
				adv := ioAdvancing(p, b.body)
				if len(adv) == 0 {
					continue
				}
				if skipTab == nil {
					bad = append(bad, fmt.Sprintf("%s:%d: %s runs only while the flag is false: with the quirk set these bytes stay in the stream and everything after them is misparsed", f.Filename(), b.line, adv[0].Str(p.TM)))
					continue
				}
				// `S == k` selects this branch; it must read exactly T[k] bytes
				var kv *big.Int
				if b.cond != nil && (b.cond.Operator() == t.IDXBinaryEqEq) {
					if x, cv := whConstSide(b.cond); x != nil && k.key(x) == skipSel {
						kv = cv
					}
				}
				if kv == nil || !kv.IsInt64() || kv.Int64() < 0 || kv.Int64() >= int64(len(skipTab)) {
					undec = append(undec, fmt.Sprintf("%s:%d: verifying branch is not selected by `%s == constant`", f.Filename(), b.line, skipSel))
					continue
				}
				got, ok := consumed(p, k, b.body, skipIO)
				if !ok {
					undec = append(undec, fmt.Sprintf("%s:%d: cannot count the bytes this verifying branch reads", f.Filename(), b.line))
					continue
				}
				covered[kv.Int64()] = true
				if want := skipTab[kv.Int64()]; want.Cmp(big.NewInt(got)) != 0 {
					bad = append(bad, fmt.Sprintf("%s:%d: the verifying branch for selector %d reads %d bytes but the ignoring branch skips %s", f.Filename(), b.line, kv.Int64(), got, want))
				}
			}
			if skipTab != nil {
				for v, w := range skipTab {
					if !covered[int64(v)] && w.Sign() != 0 {
						bad = append(bad, fmt.Sprintf("%s:%d: no verifying branch for selector %d although the ignoring branch skips %s bytes for it", f.Filename(), whLine(top.AsNode()), v, w))
					}
				}
			}
			// only-when-ignored branches must not hash or compare
			for _, b := range brs {
				if b.inT && !b.inF {
					whStmtWalk(b.body, func(o *a.Node) {
						for _, e := range whStmtExprs(o) {
							whWalkExpr(e, func(x *a.Expr) {
								if rcv, _, _, ok := x.IsMethodCall(); ok && ig.h.hasherFld[k.key(rcv)] {
									bad = append(bad, fmt.Sprintf("%s:%d: hasher operation %s runs only when checksums are to be ignored (inverted test?)", f.Filename(), whLine(o), x.Str(p.TM)))
								}
							})
						}
					})
				}
			}
		}
		var walk func(list []*a.Node)
		walk = func(list []*a.Node) {
			for _, o := range list {
				switch o.Kind() {
				case a.KIf:
					dep := false
					for n := o.AsIf(); n != nil; n = n.ElseIf() {
						whWalkExpr(n.Condition(), func(x *a.Expr) { inCond[x] = true })
						if ig.mentions(k, n.Condition()) {
							dep = true
						}
					}
					if dep {
						visitChain(o.AsIf())
					}
					for n := o.AsIf(); n != nil; n = n.ElseIf() {
						walk(n.BodyIfTrue())
						walk(n.BodyIfFalse())
					}
				case a.KWhile:
					walk(o.AsWhile().Body())
				case a.KIOManip:
					walk(o.AsIOManip().Body())
				case a.KIterate:
					for n := o.AsIterate(); n != nil; n = n.ElseIterate() {
						walk(n.Body())
					}
				}
			}
		}
		walk(f.Body())
		// uses outside if-conditions
		whStmtWalk(f.Body(), func(o *a.Node) {
			for _, e := range whStmtExprs(o) {
				if o.Kind() == a.KAssign && e == o.AsAssign().LHS() && k.rootOf(e) == ig.field {
					continue
				}
				whWalkExpr(e, func(x *a.Expr) {
					if x.Operator() == a.ExprOperatorSelector && k.key(x) == ig.field && !inCond[x] {
						undec = append(undec, fmt.Sprintf("%s:%d: %s is used outside an if-condition (%s)", f.Filename(), whLine(o), ig.field, e.Str(p.TM)))
					}
				})
			}
		})
	}
	switch {
	case len(bad) > 0:
		c.Fail("H.ignore.read", anchor, claim, chains, strings.Join(hUniq(append(bad, undec...)), "\n"))
	case len(undec) > 0:
		c.Undecided("H.ignore.read", anchor, claim, strings.Join(hUniq(undec), "\n"))
	default:
		c.Pass("H.ignore.read", anchor, claim, chains, "")
	}
	return chains
}

// ---------------------------------------------------------------- driver

type hTotals struct {
	decoders, compares, updates, resets, marks, producers, chains, steps, writes int
}

var hClaims = map[string]string{
	"H.compare": "with ignore_checksum false, on every path on which data was fed to this hasher the function cannot complete successfully (nor reset the hasher) before the hasher's value has been compared with the value parsed from the stream and a mismatch returns \"#bad checksum\"; otherwise corrupted data is delivered as good",
	"H.reset":   "after a unit's checksum has been verified, the hasher is reset (re-initialised) before it is fed the next unit; otherwise the next unit's checksum also covers the previous unit and valid multi-unit files are rejected with \"#bad checksum\"",
	"H.update":  "when the checksum is compared, every byte that a callee produced into / consumed from the hashed stream during this unit has been fed to the hasher (the update with IO.since(mark: M) follows the producing call before the next suspension, re-mark or comparison); otherwise valid files fail or only part of the data is protected",
	"H.mark":    "the slice IO.since(mark: M) given to the hasher is delimited by M = IO.mark() taken after the last suspension and after the last update, and before the callee that advances IO; otherwise bytes are hashed twice, missed, or measured against a buffer the caller has compacted",
}

func runHashRules(c *core.Ctx, pkgs []*WPkg) {
	all := map[string]*WPkg{}
	for _, p := range pkgs {
		all[p.Name] = p
	}
	tot := hTotals{}
	covered := map[string]bool{}
	// which packages verify checksums: a hasher-typed field, an accumulator, or a "#bad checksum" status
	hp := map[string]*hPkg{}
	var names []string
	for _, p := range pkgs {
		h := newHPkg(p, all)
		declares := false
		for _, s := range p.Status {
			if txt, _ := t.Unescape(p.str(s.QID()[1])); txt == "#bad checksum" {
				declares = true
			}
		}
		if len(h.hasherFld) > 0 || declares {
			hp[p.Name] = h
			names = append(names, p.Name)
		}
	}
	sort.Strings(names)
	c.Analysed("checksum_verifying_packages", names)

	rowFor := func(pkg, fn, hid string) *hRow {
		for i := range hRows {
			if hRows[i].pkg == pkg && hRows[i].fn == fn && "this."+hRows[i].hasher == hid {
				return &hRows[i]
			}
		}
		return nil
	}
	used := map[*hRow]bool{}
	for _, name := range names {
		h := hp[name]
		p := h.p
		ig := h.findIgnoreField(c)
		if ig != nil {
			tot.chains += ig.checkReads(c)
		}
		ns, nw := runStepRules(c, h)
		tot.steps += ns
		tot.writes += nw
		for _, f := range p.Funcs {
			uses := h.directUses(f)
			var hids []string
			for hid := range uses {
				hids = append(hids, hid)
			}
			sort.Strings(hids)
			for _, hid := range hids {
				fn := p.str(f.FuncName())
				anchor := fmt.Sprintf("std/%s %s[%s]", p.Name, p.whFname(f), strings.TrimPrefix(hid, "this."))
				row := rowFor(p.Name, fn, hid)
				if row == nil {
					// a pure read of an accumulator outside any row is not an event; hashers always are
					if h.accFld[hid] && !h.writesOrCompares(f, hid) {
						continue
					}
					c.Undecided("H.rows", anchor, "every function that drives a hasher (or a checksum accumulator) is covered by a row of the H table, or listed there as skipped with a reason", "no row for this (function, hasher): read the code and add one to hRows in wv/c07_hash.go")
					continue
				}
				used[row] = true
				if row.skip {
					c.Info("H.rows", anchor, "not analysed: "+row.reason)
					continue
				}
				covered[p.Name] = true
				r := &hRowAn{h: h, f: f, hid: hid, isAcc: h.accFld[hid], row: *row, events: map[int][]hEvent{}, cmps: map[int][]hCmp{}, paired: map[int]map[int]bool{},
					errs: map[string][]string{}, verifyAt: map[int]bool{}, resetAt: map[int]bool{}, updAt: map[int]bool{}, prodAt: map[int]bool{}, markAt: map[int]bool{}, plainUpd: map[int]bool{}, allResets: map[int]bool{}, wantLocals: map[string]bool{}, wantTracked: map[string]bool{}, haveLocals: map[string]bool{}, wantReads: map[int]bool{}, words: map[int]bool{}}
				r.g = whBuildCFG(p, f)
				r.k = &whKeyer{p: p, locals: r.g.locals}
				if r.g.unsupported != "" {
					c.Undecided("H.compare", anchor, hClaims["H.compare"], "control flow outside the modelled subset: "+r.g.unsupported)
					continue
				}
				r.classify()
				ign := ""
				if ig != nil {
					ign = ig.field
				}
				fs, why := r.assumeFacts(ign)
				if why != "" {
					c.Undecided("H.compare", anchor, hClaims["H.compare"], "row assumption: "+why)
					continue
				}
				r.pair(fs)
				r.search(fs)
				if len(r.undec) > 0 {
					c.Undecided("H.compare", anchor, hClaims["H.compare"], strings.Join(hUniq(r.undec), "\n"))
					continue
				}
				rowNote := "row: " + row.reason
				emit := func(rule string, sites int, applicable bool) {
					if !applicable && len(r.errs[rule]) == 0 {
						return
					}
					c.Check(len(r.errs[rule]) == 0, rule, anchor, hClaims[rule], sites, strings.Join(r.errs[rule], "\n")+func() string {
						if len(r.errs[rule]) > 0 {
							if rule == "H.compare" && len(r.staleNotes) > 0 {
								return "\n" + strings.Join(hUniq(r.staleNotes), "\n") + "\n" + rowNote
							}
							return "\n" + rowNote
						}
						return ""
					}())
				}
				if r.nWords > 0 {
					var missing []string
					for w := 0; w < r.nWords; w++ {
						if !r.words[w] {
							missing = append(missing, strconv.Itoa(w))
						}
					}
					if len(missing) > 0 {
						r.errs["H.compare"] = append(r.errs["H.compare"], fmt.Sprintf("%s:%d: the digest has %d 64-bit words but word(s) %s are never compared with the stream: a corruption that only changes those bits of the stored digest, or data that collides on the compared words, is accepted", f.Filename(), f.Line(), r.nWords, strings.Join(missing, ",")))
					}
				}
				if len(r.verifyAt) == 0 {
					c.Fail("H.compare", anchor, hClaims["H.compare"], r.nStates, fmt.Sprintf("%s:%d: no reachable condition compares a value derived from %s with a value read from the stream such that a mismatch returns \"#bad checksum\" (with ignore_checksum false)\n%s%s", f.Filename(), f.Line(), hid, func() string {
						if len(r.staleNotes) > 0 {
							return strings.Join(hUniq(r.staleNotes), "\n") + "\n"
						}
						return ""
					}(), rowNote))
				} else {
					emit("H.compare", len(r.verifyAt)+len(r.plainUpd)+len(r.updAt), true)
				}
				emit("H.reset", len(r.allResets)+len(r.plainUpd)+len(r.updAt), len(r.allResets) > 0 || len(r.errs["H.reset"]) > 0)
				emit("H.update", len(r.prodAt), len(r.regions) > 0)
				emit("H.mark", len(r.markAt)+len(r.updAt), len(r.regions) > 0)
				tot.compares += len(r.verifyAt)
				tot.updates += len(r.updAt)
				tot.resets += len(r.resetAt)
				tot.marks += len(r.markAt)
				tot.producers += len(r.prodAt)
				c.Info("H.rows", anchor, fmt.Sprintf("states=%d verifying-compare sites=%d slice-updates=%d other-updates=%d resets=%d (of which after a verified unit: %d) producers=%d marks=%d", r.nStates, len(r.verifyAt), len(r.updAt), len(r.plainUpd), len(r.allResets), len(r.resetAt), len(r.prodAt), len(r.markAt)))
			}
		}
	}
	for i := range hRows {
		if !used[&hRows[i]] {
			c.Undecided("H.rows", fmt.Sprintf("std/%s decoder.%s[%s]", hRows[i].pkg, hRows[i].fn, hRows[i].hasher), "every row of the H table matches a function that drives that hasher", "stale row: the function no longer touches this hasher (or the hasher is no longer recognised as one)")
		}
	}
	tot.decoders = len(covered)
	c.Analysed("H_totals", map[string]int{"decoders": tot.decoders, "verifying_compare_sites": tot.compares, "slice_update_sites": tot.updates, "resets_after_verified_unit": tot.resets, "mark_sites": tot.marks, "producer_sites": tot.producers, "ignore_dependent_if_chains": tot.chains, "crc_table_steps": tot.steps, "byte_writes_next_to_steps": tot.writes})
	c.Floor("H.decoders", "decoders whose checksum verification is analysed (gzip, zlib, lzip, xz, png, bzip2)", tot.decoders, 6)
	c.Floor("H.compare", "verifying comparison sites (have vs want, mismatch returns \"#bad checksum\")", tot.compares, 15)
	c.Floor("H.update", "hasher updates with a marked slice IO.since(mark: M)", tot.updates, 10)
	c.Floor("H.reset", "resets reached after a verified unit", tot.resets, 9)
	c.Floor("H.ignore", "if-chains that depend on the ignore flag", tot.chains, 30)
	c.Floor("H.step", "table-driven CRC steps next to single-byte output writes (bzip2 flush_fast, flush_slow)", tot.steps+tot.writes, 6)
}

// writesOrCompares: the function assigns the accumulator, calls a method that does, or compares it.
func (h *hPkg) writesOrCompares(f *a.Func, hid string) bool {
	k := h.keyer(f)
	res := false
	recv := h.p.str(f.Receiver()[1])
	whStmtWalk(f.Body(), func(o *a.Node) {
		if o.Kind() == a.KAssign && k.rootOf(o.AsAssign().LHS()) == hid {
			res = true
		}
		for _, e := range whStmtExprs(o) {
			whWalkExpr(e, func(x *a.Expr) {
				if rcv, meth, _, ok := x.IsMethodCall(); ok && rcv.Operator() == 0 && rcv.Ident() == t.IDThis && h.ms.of(recv + "." + h.p.str(meth))[hid] {
					res = true
				}
				if op := x.Operator(); (o.Kind() == a.KIf || o.Kind() == a.KWhile) && (op == t.IDXBinaryEqEq || op == t.IDXBinaryNotEq) {
					for _, side := range []*a.Expr{x.LHS().AsExpr(), x.RHS().AsExpr()} {
						if k.key(side) == hid {
							res = true
						}
					}
				}
			})
		}
	})
	return res
}
