package main

// C13, rule E.drain — "Close flushes everything": when rac.Writer's chunking
// functions run with eof == true (Writer.Close → write(true) → writeDChunks /
// writeCChunks), every return that may report success is reached only with
// the pending buffer empty. A "wait for more input" return taken at EOF makes
// Close() return nil with the buffered tail silently dropped.
//
// The waiting returns of today's code are not all spelled `!eof && …`: in
// writeCChunks the one after a short chunk is unreachable at EOF because
// eof ⇒ target = maxTargetDChunkSize ⇒ next = max ⇒ force = true ⇒ tryCChunk
// does not report "short". That chain is decided by constant propagation on
// the function's CFG under the assumption eof = true (flat lattice: integer /
// boolean constants, "non-nil", "≠ sentinel S"), with one computed callee
// summary: "G returns the package-level sentinel S only behind the edge
// <bool parameter k> == false". Edges whose condition has a known value are
// infeasible; E1 then asks, on the feasible part: does every path from entry to
// a possibly-successful return cross an edge implying "nothing is pending"?
//
// Seeded change behind the rule: seeded/C13-3.

import (
	"fmt"
	"go/ast"
	"go/constant"
	"go/token"
	"go/types"
	"sort"
	"strings"

	"golang.org/x/tools/go/cfg"

	"wv/core"
)

type c13Abs struct {
	val    constant.Value // integer or boolean constant (nil: not a known constant)
	isNil  bool
	nonNil bool
	notEq  types.Object // certainly not this package-level variable
}

func (a c13Abs) same(b c13Abs) bool {
	if (a.val == nil) != (b.val == nil) || a.isNil != b.isNil || a.nonNil != b.nonNil || a.notEq != b.notEq {
		return false
	}
	return a.val == nil || (a.val.Kind() == b.val.Kind() && constant.Compare(a.val, token.EQL, b.val))
}

func (a c13Abs) empty() bool { return a.val == nil && !a.isNil && !a.nonNil && a.notEq == nil }

// meet keeps what both sides agree on.
func (a c13Abs) meet(b c13Abs) c13Abs {
	var r c13Abs
	if a.val != nil && b.val != nil && a.val.Kind() == b.val.Kind() && constant.Compare(a.val, token.EQL, b.val) {
		r.val = a.val
	}
	r.isNil = a.isNil && b.isNil
	r.nonNil = a.nonNil && b.nonNil
	if a.notEq == b.notEq {
		r.notEq = a.notEq
	}
	return r
}

type c13State map[types.Object]c13Abs

func (s c13State) clone() c13State {
	r := c13State{}
	for k, v := range s {
		r[k] = v
	}
	return r
}

// c13Summary: the function returns sentinel only across the edge param[idx] == false.
type c13Summary struct {
	sentinel types.Object
	idx      int
}

type c13CP struct {
	fl        *core.Flow
	env       *c13Env
	info      *types.Info
	summaries map[*types.Func]c13Summary
	untracked map[types.Object]bool
	in        map[*cfg.Block]c13State
	before    map[ast.Node]c13State
	dead      map[ast.Node][2]bool // condition node → [taken edge infeasible, not-taken edge infeasible]
}

func c13FitsType(v constant.Value, t types.Type) bool {
	bt, ok := t.Underlying().(*types.Basic)
	if !ok || bt.Info()&types.IsInteger == 0 || v.Kind() != constant.Int {
		return ok && bt.Info()&types.IsBoolean != 0 && v.Kind() == constant.Bool
	}
	bits, signed := 64, true
	switch bt.Kind() {
	case types.Int8:
		bits = 8
	case types.Int16:
		bits = 16
	case types.Int32:
		bits = 32
	case types.Uint8:
		bits, signed = 8, false
	case types.Uint16:
		bits, signed = 16, false
	case types.Uint32:
		bits, signed = 32, false
	case types.Uint, types.Uint64, types.Uintptr:
		signed = false
	}
	one := constant.MakeInt64(1)
	if signed {
		hi := constant.Shift(one, token.SHL, uint(bits-1))
		lo := constant.UnaryOp(token.SUB, hi, 0)
		return constant.Compare(v, token.LSS, hi) && constant.Compare(v, token.GEQ, lo)
	}
	hi := constant.Shift(one, token.SHL, uint(bits))
	return constant.Compare(v, token.LSS, hi) && constant.Sign(v) >= 0
}

func (cp *c13CP) pkgVar(e ast.Expr) types.Object {
	id, ok := ast.Unparen(e).(*ast.Ident)
	if !ok {
		return nil
	}
	v, ok := cp.info.Uses[id].(*types.Var)
	if ok && !v.IsField() && v.Pkg() != nil && v.Parent() == v.Pkg().Scope() {
		return v
	}
	return nil
}

func (cp *c13CP) local(e ast.Expr) types.Object {
	id, ok := ast.Unparen(e).(*ast.Ident)
	if !ok {
		return nil
	}
	v, ok := cp.fl.Obj(id).(*types.Var)
	if !ok || v.IsField() || cp.untracked[v] || (v.Pkg() != nil && v.Parent() == v.Pkg().Scope()) {
		return nil
	}
	return v
}

func (cp *c13CP) eval(e ast.Expr, st c13State) c13Abs {
	e = ast.Unparen(e)
	if tv, ok := cp.info.Types[e]; ok && tv.Value != nil && (tv.Value.Kind() == constant.Int || tv.Value.Kind() == constant.Bool) {
		return c13Abs{val: tv.Value}
	}
	if c13IsNil(cp.info, e) {
		return c13Abs{isNil: true}
	}
	switch x := e.(type) {
	case *ast.Ident:
		if o := cp.local(x); o != nil {
			return st[o]
		}
	case *ast.UnaryExpr:
		if x.Op == token.NOT {
			if v := cp.eval(x.X, st); v.val != nil && v.val.Kind() == constant.Bool {
				return c13Abs{val: constant.MakeBool(!constant.BoolVal(v.val))}
			}
		}
	case *ast.CallExpr:
		if tv, ok := cp.info.Types[x.Fun]; ok && tv.IsType() && len(x.Args) == 1 {
			v := cp.eval(x.Args[0], st)
			if v.val != nil && c13FitsType(v.val, tv.Type) {
				return c13Abs{val: v.val}
			}
			return c13Abs{}
		}
		if fn := core.Callee(cp.info, x); fn != nil {
			if sm, ok := cp.summaries[fn]; ok && sm.idx < len(x.Args) {
				if a := cp.eval(x.Args[sm.idx], st); a.val != nil && a.val.Kind() == constant.Bool && constant.BoolVal(a.val) {
					return c13Abs{notEq: sm.sentinel}
				}
			}
		}
	case *ast.BinaryExpr:
		a, b := cp.eval(x.X, st), cp.eval(x.Y, st)
		isB := func(v c13Abs) (bool, bool) {
			if v.val != nil && v.val.Kind() == constant.Bool {
				return constant.BoolVal(v.val), true
			}
			return false, false
		}
		switch x.Op {
		case token.LAND, token.LOR:
			av, aok := isB(a)
			bv, bok := isB(b)
			and := x.Op == token.LAND
			switch {
			case aok && av != and: // false && _ , true || _
				return c13Abs{val: constant.MakeBool(av)}
			case bok && bv != and:
				return c13Abs{val: constant.MakeBool(bv)}
			case aok && bok:
				return c13Abs{val: constant.MakeBool(and)} // true && true, false || false
			case aok:
				return b
			case bok:
				return a
			}
			return c13Abs{}
		case token.EQL, token.NEQ:
			res := func(eq bool) c13Abs { return c13Abs{val: constant.MakeBool(eq == (x.Op == token.EQL))} }
			for _, p := range [][2]c13Abs{{a, b}, {b, a}} {
				if p[1].isNil && p[0].nonNil {
					return res(false)
				}
				if p[1].isNil && p[0].isNil {
					return res(true)
				}
			}
			for _, p := range [][2]ast.Expr{{x.X, x.Y}, {x.Y, x.X}} {
				if s := cp.pkgVar(p[1]); s != nil && cp.eval(p[0], st).notEq == s {
					return res(false)
				}
			}
			fallthrough
		case token.LSS, token.LEQ, token.GTR, token.GEQ:
			if a.val != nil && b.val != nil && a.val.Kind() == b.val.Kind() && (a.val.Kind() == constant.Int || x.Op == token.EQL || x.Op == token.NEQ) {
				return c13Abs{val: constant.MakeBool(constant.Compare(a.val, x.Op, b.val))}
			}
		case token.ADD, token.SUB, token.MUL:
			if a.val != nil && b.val != nil && a.val.Kind() == constant.Int && b.val.Kind() == constant.Int {
				v := constant.BinaryOp(a.val, x.Op, b.val)
				if tv, ok := cp.info.Types[e]; ok && tv.Type != nil && c13FitsType(v, tv.Type) {
					return c13Abs{val: v}
				}
			}
		}
	}
	return c13Abs{}
}

func (cp *c13CP) set(st c13State, o types.Object, v c13Abs) {
	if o == nil {
		return
	}
	if v.empty() {
		delete(st, o)
	} else {
		st[o] = v
	}
}

func (cp *c13CP) transfer(n ast.Node, st c13State) {
	switch s := n.(type) {
	case *ast.AssignStmt:
		switch {
		case (s.Tok == token.ASSIGN || s.Tok == token.DEFINE) && len(s.Lhs) == len(s.Rhs):
			vals := make([]c13Abs, len(s.Rhs))
			for i, r := range s.Rhs {
				vals[i] = cp.eval(r, st)
			}
			for i, l := range s.Lhs {
				cp.set(st, cp.local(l), vals[i])
			}
		case s.Tok == token.ASSIGN || s.Tok == token.DEFINE:
			for _, l := range s.Lhs {
				cp.set(st, cp.local(l), c13Abs{})
			}
		case len(s.Lhs) == 1 && len(s.Rhs) == 1:
			var op token.Token
			switch s.Tok {
			case token.ADD_ASSIGN:
				op = token.ADD
			case token.SUB_ASSIGN:
				op = token.SUB
			case token.MUL_ASSIGN:
				op = token.MUL
			}
			o := cp.local(s.Lhs[0])
			v := c13Abs{}
			if op != token.ILLEGAL && o != nil {
				a, b := st[o], cp.eval(s.Rhs[0], st)
				if a.val != nil && b.val != nil && a.val.Kind() == constant.Int && b.val.Kind() == constant.Int {
					if r := constant.BinaryOp(a.val, op, b.val); c13FitsType(r, o.Type()) {
						v = c13Abs{val: r}
					}
				}
			}
			cp.set(st, o, v)
		}
	case *ast.IncDecStmt:
		o := cp.local(s.X)
		v := c13Abs{}
		if a := st[o]; o != nil && a.val != nil && a.val.Kind() == constant.Int {
			op := token.ADD
			if s.Tok == token.DEC {
				op = token.SUB
			}
			if r := constant.BinaryOp(a.val, op, constant.MakeInt64(1)); c13FitsType(r, o.Type()) {
				v = c13Abs{val: r}
			}
		}
		cp.set(st, o, v)
	case *ast.ValueSpec:
		for i, id := range s.Names {
			o := cp.info.Defs[id]
			if o == nil || cp.untracked[o] {
				continue
			}
			if len(s.Values) == len(s.Names) {
				cp.set(st, o, cp.eval(s.Values[i], st))
			} else {
				cp.set(st, o, c13Abs{})
			}
		}
	}
}

// refine: what leaving cond with value `taken` adds to the state.
func (cp *c13CP) refine(cond ast.Expr, taken bool, st c13State) {
	cond = ast.Unparen(cond)
	switch x := cond.(type) {
	case *ast.Ident:
		if o := cp.local(x); o != nil {
			if bt, ok := o.Type().Underlying().(*types.Basic); ok && bt.Info()&types.IsBoolean != 0 {
				st[o] = c13Abs{val: constant.MakeBool(taken)}
			}
		}
	case *ast.UnaryExpr:
		if x.Op == token.NOT {
			cp.refine(x.X, !taken, st)
		}
	case *ast.BinaryExpr:
		if x.Op != token.EQL && x.Op != token.NEQ {
			return
		}
		equal := taken == (x.Op == token.EQL)
		for _, p := range [][2]ast.Expr{{x.X, x.Y}, {x.Y, x.X}} {
			o := cp.local(p[0])
			if o == nil {
				continue
			}
			cur := st[o]
			switch {
			case c13IsNil(cp.info, p[1]):
				if equal {
					cur = c13Abs{isNil: true}
				} else {
					cur.nonNil, cur.isNil = true, false
				}
			case cp.pkgVar(p[1]) != nil:
				if equal {
					cur.nonNil = true // package-level error values are non-nil (errors.New)
				} else {
					cur.notEq = cp.pkgVar(p[1])
				}
			default:
				if v := cp.eval(p[1], st); equal && v.val != nil {
					cur = c13Abs{val: v.val}
				} else {
					continue
				}
			}
			cp.set(st, o, cur)
		}
	}
}

// c13Propagate runs the constant propagation on fl's CFG with the given assumptions.
func c13Propagate(fl *core.Flow, env *c13Env, assume c13State, summaries map[*types.Func]c13Summary) *c13CP {
	cp := &c13CP{fl: fl, env: env, info: fl.F.Info(), summaries: summaries, untracked: map[types.Object]bool{},
		in: map[*cfg.Block]c13State{}, before: map[ast.Node]c13State{}, dead: map[ast.Node][2]bool{}}
	// untracked: address-taken locals and range variables
	ast.Inspect(fl.F.Decl.Body, func(n ast.Node) bool {
		switch s := n.(type) {
		case *ast.UnaryExpr:
			if s.Op == token.AND {
				if id, ok := ast.Unparen(s.X).(*ast.Ident); ok {
					cp.untracked[fl.Obj(id)] = true
				}
			}
		case *ast.RangeStmt:
			for _, e := range []ast.Expr{s.Key, s.Value} {
				if e != nil {
					if o := fl.Obj(e); o != nil {
						cp.untracked[o] = true
					}
				}
			}
		}
		return true
	})
	if len(fl.G.Blocks) == 0 {
		return cp
	}
	entry := fl.G.Blocks[0]
	cp.in[entry] = assume.clone()
	work := []*cfg.Block{entry}
	queued := map[*cfg.Block]bool{entry: true}
	flow := func(b *cfg.Block, record bool) (outs []c13State) {
		st := cp.in[b].clone()
		for i, n := range b.Nodes {
			if record {
				cp.before[n] = st.clone()
			}
			if i == len(b.Nodes)-1 && len(b.Succs) == 2 {
				if cond, ok := n.(ast.Expr); ok {
					v := cp.eval(cond, st)
					var d [2]bool
					for si := range b.Succs {
						taken := si == 0
						if v.val != nil && v.val.Kind() == constant.Bool && constant.BoolVal(v.val) != taken {
							d[si] = true
							outs = append(outs, nil)
							continue
						}
						o := st.clone()
						cp.refine(cond, taken, o)
						outs = append(outs, o)
					}
					if record {
						cp.dead[n] = d
					}
					return outs
				}
			}
			cp.transfer(n, st)
		}
		for range b.Succs {
			outs = append(outs, st.clone())
		}
		return outs
	}
	for iter := 0; len(work) > 0 && iter < 10000; iter++ {
		b := work[0]
		work = work[1:]
		queued[b] = false
		for si, out := range flow(b, false) {
			if out == nil {
				continue
			}
			succ := b.Succs[si]
			old, seen := cp.in[succ]
			var nw c13State
			if !seen {
				nw = out
			} else {
				nw = c13State{}
				for o, v := range old {
					if w, ok := out[o]; ok {
						if m := v.meet(w); !m.empty() {
							nw[o] = m
						}
					}
				}
			}
			changed := !seen || len(nw) != len(old)
			if !changed {
				for o, v := range nw {
					if !v.same(old[o]) {
						changed = true
						break
					}
				}
			}
			if changed {
				cp.in[succ] = nw
				if !queued[succ] {
					queued[succ] = true
					work = append(work, succ)
				}
			}
		}
	}
	for _, b := range fl.G.Blocks {
		if _, ok := cp.in[b]; ok {
			flow(b, true)
		}
	}
	return cp
}

// ---------------------------------------------------------------------------

func (s *c13) ruleEof() {
	c, k := s.c, s.k
	claim := "with eof == true (Writer.Close → write(true)) a chunking function returns success only with nothing pending: every path to a return that may be nil crosses an edge implying length() == 0 / an empty peek, where paths that need eof == false, or a \"short chunk\" answer from a forced tryCChunk, are excluded by constant propagation. A \"wait for more input\" return taken at EOF makes Close() return nil while the buffered tail of the data is silently dropped"
	closeFl := k.flow("E.drain", relRac, "Writer", "Close")
	if closeFl == nil {
		return
	}
	// the buffer: the field of the Writer whose type has the length / view / consumer methods (B rules)
	bufT := k.obj("E.drain", relRac, "writeBuffer")
	if bufT == nil {
		return
	}
	isBuf := func(info *types.Info, e ast.Expr) bool {
		tv, ok := info.Types[e]
		if !ok {
			return false
		}
		t := tv.Type
		if p, isP := t.(*types.Pointer); isP {
			t = p.Elem()
		}
		return types.Identical(t, bufT.Type())
	}
	// family: the method Close calls with a literal true, and what it hands the flag to
	type member struct {
		f   *core.Func
		idx int
	}
	var family []member
	inFamily := map[*types.Func]int{}
	boolParam := func(fn *types.Func) int {
		sig := fn.Type().(*types.Signature)
		idx, n := -1, 0
		for i := 0; i < sig.Params().Len(); i++ {
			if bt, ok := sig.Params().At(i).Type().Underlying().(*types.Basic); ok && bt.Kind() == types.Bool {
				idx = i
				n++
			}
		}
		if n != 1 {
			return -1
		}
		return idx
	}
	add := func(fn *types.Func) {
		f := s.byObj[fn]
		if f == nil {
			return
		}
		if _, ok := inFamily[fn]; ok {
			return
		}
		if idx := boolParam(fn); idx >= 0 {
			inFamily[fn] = idx
			family = append(family, member{f, idx})
		}
	}
	ast.Inspect(closeFl.F.Decl.Body, func(n ast.Node) bool {
		if call, ok := n.(*ast.CallExpr); ok {
			if fn := core.Callee(closeFl.F.Info(), call); fn != nil && s.byObj[fn] != nil {
				if idx := boolParam(fn); idx >= 0 && idx < len(call.Args) {
					if tv, ok := closeFl.F.Info().Types[call.Args[idx]]; ok && tv.Value != nil && tv.Value.Kind() == constant.Bool && constant.BoolVal(tv.Value) {
						add(fn)
					}
				}
			}
		}
		return true
	})
	for i := 0; i < len(family); i++ {
		m := family[i]
		info := m.f.Info()
		var flag types.Object
		k2 := 0
		for _, fld := range m.f.Decl.Type.Params.List {
			for _, id := range fld.Names {
				if k2 == m.idx {
					flag = info.Defs[id]
				}
				k2++
			}
		}
		ast.Inspect(m.f.Decl.Body, func(n ast.Node) bool {
			if call, ok := n.(*ast.CallExpr); ok {
				if fn := core.Callee(info, call); fn != nil && s.byObj[fn] != nil {
					if idx := boolParam(fn); idx >= 0 && idx < len(call.Args) {
						if id, ok := ast.Unparen(call.Args[idx]).(*ast.Ident); ok && info.Uses[id] == flag {
							add(fn)
						}
					}
				}
			}
			return true
		})
	}
	if len(family) == 0 {
		c.Undecided("E.drain", closeFl.F.Name(), claim, "no call with a literal `true` flag found in Writer.Close")
		return
	}

	// summaries: G returns sentinel S only behind <bool param> == false, and S is returned nowhere else
	summaries := map[*types.Func]c13Summary{}
	var sumText []string
	for _, f := range s.funcs {
		idx := boolParam(f.Obj)
		if idx < 0 || f.Decl.Recv == nil {
			continue
		}
		info := f.Info()
		sent := map[types.Object]bool{}
		ast.Inspect(f.Decl.Body, func(n ast.Node) bool {
			if r, ok := n.(*ast.ReturnStmt); ok && len(r.Results) > 0 {
				if id, ok := ast.Unparen(r.Results[len(r.Results)-1]).(*ast.Ident); ok {
					if v, ok := info.Uses[id].(*types.Var); ok && !v.IsField() && v.Pkg() != nil && v.Parent() == v.Pkg().Scope() {
						sent[v] = true
					}
				}
			}
			return true
		})
		for sv := range sent {
			// every other mention of sv in the package is a comparison
			onlyHere := true
			for _, g := range s.g.AllFuncs(s.pkg) {
				var stack []ast.Node
				ast.Inspect(g.Decl, func(n ast.Node) bool {
					if n == nil {
						stack = stack[:len(stack)-1]
						return true
					}
					stack = append(stack, n)
					id, ok := n.(*ast.Ident)
					if !ok || g.Info().Uses[id] != sv {
						return true
					}
					var parent ast.Node
					for j := len(stack) - 2; j >= 0; j-- {
						if _, isParen := stack[j].(*ast.ParenExpr); !isParen {
							parent = stack[j]
							break
						}
					}
					switch p := parent.(type) {
					case *ast.BinaryExpr:
						if p.Op == token.EQL || p.Op == token.NEQ {
							return true
						}
					case *ast.ReturnStmt:
						if g.Obj == f.Obj {
							return true
						}
					}
					onlyHere = false
					return true
				})
			}
			if !onlyHere {
				continue
			}
			fl := k.flow("E.drain", relRac, c13RecvTypeName(f.Decl), f.Decl.Name.Name)
			if fl == nil {
				continue
			}
			env := newC13Env(fl)
			flag := fl.Param(idx)
			esc, _ := fl.Escapes(core.Query{
				Exit: func(n ast.Node) bool {
					r, ok := n.(*ast.ReturnStmt)
					return ok && len(r.Results) > 0 && fl.Obj(r.Results[len(r.Results)-1]) == sv
				},
				Events: []core.Event{{Edge: func(cond ast.Expr, ci *core.CondInfo, taken bool) bool {
					return c13BoolOf(env, cond, taken, flag, cond, 0) == -1
				}}}})
			if len(esc) == 0 {
				summaries[f.Obj] = c13Summary{sentinel: sv, idx: idx}
				sumText = append(sumText, fmt.Sprintf("%s returns %s only when its parameter %s is false", c13ShortName(f.Obj), sv.Name(), flag.Name()))
			}
		}
	}
	sort.Strings(sumText)
	c.Info("E.summary", relRac, "callee summaries used by the constant propagation: ["+strings.Join(sumText, "; ")+"]")

	nFn, nRet := 0, 0
	for _, m := range family {
		f := m.f
		fl := k.flow("E.drain", relRac, c13RecvTypeName(f.Decl), f.Decl.Name.Name)
		if fl == nil {
			continue
		}
		env := newC13Env(fl)
		info := env.info
		flag := fl.Param(m.idx)
		anchor := fl.F.Name()
		if env.hasLit {
			c.Undecided("E.drain", anchor, claim, "function literal")
			continue
		}
		cp := c13Propagate(fl, env, c13State{flag: c13Abs{val: constant.MakeBool(true)}}, summaries)
		// returns that may report success
		delegated := func(r *ast.ReturnStmt) bool {
			if len(r.Results) != 1 {
				return false
			}
			call, ok := ast.Unparen(r.Results[0]).(*ast.CallExpr)
			if !ok {
				return false
			}
			fn := core.Callee(info, call)
			idx, in := inFamily[fn]
			if !in || idx >= len(call.Args) {
				return false
			}
			v := cp.eval(call.Args[idx], cp.before[r])
			return v.val != nil && v.val.Kind() == constant.Bool && constant.BoolVal(v.val)
		}
		success := func(n ast.Node) bool {
			r, ok := n.(*ast.ReturnStmt)
			if !ok || fl.IsErrorReturn(r) || delegated(r) {
				return false
			}
			if len(r.Results) == 0 {
				return true
			}
			st, reached := cp.before[r]
			if !reached {
				return false
			}
			return !cp.eval(r.Results[len(r.Results)-1], st).nonNil
		}
		nS, nD := 0, 0
		for _, n := range env.nodes {
			if r, ok := n.(*ast.ReturnStmt); ok {
				if success(n) {
					nS++
				} else if delegated(r) {
					nD++
				}
			}
		}
		if nS == 0 {
			if nD > 0 {
				c.Pass("E.drain", anchor, claim, nD, fmt.Sprintf("%d returns, all delegating to a chunking function with the flag still true", nD))
			} else {
				c.Undecided("E.drain", anchor, claim, "no return that may report success")
			}
			continue
		}
		nFn++
		nRet += nS
		// calls that would add pending bytes: a method of the buffer that stores a parameter into a slice field (extend)
		adds := core.CountCalls(fl.F.Decl.Body, func(call *ast.CallExpr) bool {
			r := core.RecvOf(call)
			fn := core.Callee(info, call)
			if r == nil || fn == nil || !isBuf(info, r) {
				return false
			}
			sig := fn.Type().(*types.Signature)
			return sig.Params().Len() == 1 && types.Identical(sig.Params().At(0).Type(), types.NewSlice(types.Typ[types.Uint8])) && sig.Results().Len() == 0
		})
		if adds > 0 {
			c.Undecided("E.drain", anchor, claim, "the function hands new bytes to the pending buffer: emptiness established earlier may not hold at the return")
			continue
		}
		// "nothing pending" targets
		pending := c13Atom{kind: 's', tag: "pending()"}
		nLen := 0
		env.intAtom = func(call *ast.CallExpr, at ast.Node) (c13Atom, bool) {
			fn := core.Callee(info, call)
			r := core.RecvOf(call)
			if fn == nil || r == nil || !isBuf(info, r) {
				return c13Atom{}, false
			}
			sig := fn.Type().(*types.Signature)
			if sig.Params().Len() == 0 && sig.Results().Len() == 1 && c13IsInt(sig.Results().At(0).Type()) {
				return pending, true
			}
			return c13Atom{}, false
		}
		ast.Inspect(fl.F.Decl.Body, func(n ast.Node) bool {
			if call, ok := n.(*ast.CallExpr); ok {
				if _, ok := env.intAtom(call, nil); ok {
					nLen++
				}
			}
			return true
		})
		var targets []c13Aff
		var tdesc []string
		posArgs := []ast.Expr{}
		if nLen > 0 {
			targets = append(targets, affA(pending))
			tdesc = append(tdesc, fmt.Sprintf("%d calls of the buffer's length query", nLen))
		}
		// the two results of one view call: len(a)+len(b)
		for _, n := range env.nodes {
			as, ok := n.(*ast.AssignStmt)
			if !ok || len(as.Lhs) != 2 || len(as.Rhs) != 1 {
				continue
			}
			call, ok := ast.Unparen(as.Rhs[0]).(*ast.CallExpr)
			if !ok {
				continue
			}
			fn := core.Callee(info, call)
			r := core.RecvOf(call)
			if fn == nil || r == nil || !isBuf(info, r) || len(call.Args) != 1 {
				continue
			}
			a, b := fl.Obj(as.Lhs[0]), fl.Obj(as.Lhs[1])
			if a == nil || b == nil {
				continue
			}
			targets = append(targets, affA(c13Atom{kind: 'l', obj: a}).plus(affA(c13Atom{kind: 'l', obj: b}), 1))
			tdesc = append(tdesc, core.Src(s.g.Fset, as))
			posArgs = append(posArgs, call.Args[0])
			// the views must be the call's results when tested: every other write to a / b reaches a test only through this statement — checked per edge below
		}
		if len(targets) == 0 {
			c.Undecided("E.drain", anchor, claim, "no local holding the pending length (`n := buf.length()`) or a two-slice view (`a, b := buf.peek(k)`) found")
			continue
		}
		viewFresh := func(t c13Aff, at ast.Node) bool {
			for x := range t.t {
				if x.kind != 'l' {
					continue
				}
				var def ast.Node
				for _, n := range env.nodes {
					if as, ok := n.(*ast.AssignStmt); ok && len(as.Lhs) == 2 && len(as.Rhs) == 1 && (fl.Obj(as.Lhs[0]) == x.obj || fl.Obj(as.Lhs[1]) == x.obj) {
						def = n
					}
				}
				for _, w := range env.writes[x.obj] {
					if w != def && env.reaches(w, func(n ast.Node) bool { return n == at }, func(n ast.Node) bool { return n == def }) {
						return false
					}
				}
			}
			return true
		}
		drained := func(cond ast.Expr, ci *core.CondInfo, taken bool) bool {
			return env.edgeImplies(cond, taken, cond, func(f c13Aff, op token.Token) bool {
				for _, t := range targets {
					if r, ok := c13BoundsOn(f, op, t); ok && r.atMost(0) && viewFresh(t, cond) {
						return true
					}
				}
				return false
			})
		}
		infeasible := func(cond ast.Expr, ci *core.CondInfo, taken bool) bool {
			d, ok := cp.dead[cond]
			if !ok {
				return false
			}
			if taken {
				return d[0]
			}
			return d[1]
		}
		esc, sites := fl.Escapes(core.Query{Exit: success, Events: []core.Event{{Edge: drained}}, Exempt: infeasible, FuncEnd: true})
		nDead := 0
		for _, d := range cp.dead {
			if d[0] {
				nDead++
			}
			if d[1] {
				nDead++
			}
		}
		detail := fmt.Sprintf("%d returns that may be nil; pending-length facts: %s; %d edges infeasible with %s == true", nS, strings.Join(tdesc, " | "), nDead, flag.Name())
		if len(esc) > 0 {
			c.Fail("E.drain", anchor, claim, sites, fmt.Sprintf("in %s (%s), with %s == true, a return that may report success is reachable without the pending buffer having been found empty (%s):\n%s",
				fl.F.Name(), s.g.Pos(fl.F.Decl.Pos()), flag.Name(), detail, c13EscText(esc)))
		} else {
			c.Pass("E.drain", anchor, claim, sites, detail)
			c.Info("E.drain.facts", anchor, detail)
		}
		// an empty view means an empty buffer only if a positive number of bytes was asked for
		for _, a := range posArgs {
			fld := env.scalarField(a)
			if fld == nil {
				c.Undecided("E.drain", anchor+"[view size]", "the number of bytes asked of the view is a positive field of the Writer", core.Src(s.g.Fset, a))
				continue
			}
			okAll, nCalls := true, 0
			for _, g := range s.funcs {
				gi := g.Info()
				if core.CountCalls(g.Decl.Body, func(call *ast.CallExpr) bool { return core.IsCallTo(gi, call, f.Obj) }) == 0 {
					continue
				}
				gfl := k.flow("E.drain", relRac, c13RecvTypeName(g.Decl), g.Decl.Name.Name)
				if gfl == nil {
					continue
				}
				genv := newC13Env(gfl)
				T := affA(c13Atom{kind: 'v', obj: fld})
				edge := func(cond ast.Expr, ci *core.CondInfo, taken bool) bool {
					return genv.edgeImplies(cond, taken, cond, func(ff c13Aff, op token.Token) bool {
						r, ok := c13BoundsOn(ff, op, T)
						return ok && r.hasLo && r.lo >= 1
					})
				}
				e2, _ := c13FromEntryAndEach(gfl, genv.killsOf(map[types.Object]bool{types.Object(fld): true}), core.Query{
					Exit: func(n ast.Node) bool {
						return core.AnyCall(n, func(call *ast.CallExpr) bool { return core.IsCallTo(gi, call, f.Obj) })
					},
					Events: []core.Event{{Edge: edge}}})
				nCalls++
				if len(e2) > 0 {
					okAll = false
				}
			}
			c.Check(okAll && nCalls > 0, "E.drain", anchor+"[view size]", fmt.Sprintf("%s is called only when %s > 0, so an empty view (`%s` bytes asked) means an empty buffer", f.Decl.Name.Name, fld.Name(), fld.Name()), nCalls, "a call site is reachable without an edge implying the field is positive")
		}
	}
	c.Floor("E.drain", "chunking functions with returns that may report success at EOF (writeDChunks, writeCChunks)", nFn, 2)
	c.Floor("E.drain", "such returns that are reachable with the flag true (`return nil` after an empty peek / a zero length)", nRet, 2)
}
