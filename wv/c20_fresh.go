package main

// Clause 4 of C20 — the committed release is what the sources generate. This is
// a comparison of two source artifacts, one of them a build product of the
// working tree (labelled build-reproduction in the evidence): it runs the
// compiler and the two table generators in a scratch copy, never a codec.

import (
	"bytes"
	"fmt"
	"os"
	"os/exec"
	"path/filepath"

	"wv/core"
)

func firstDiff(a, b []byte) string {
	n := len(a)
	if len(b) < n {
		n = len(b)
	}
	line := 1
	for i := 0; i < n; i++ {
		if a[i] != b[i] {
			ls := bytes.LastIndexByte(a[:i], '\n') + 1
			le := i + bytes.IndexByte(append(a[i:], '\n'), '\n')
			ls2 := bytes.LastIndexByte(b[:i], '\n') + 1
			le2 := i + bytes.IndexByte(append(b[i:], '\n'), '\n')
			return fmt.Sprintf("first difference at byte %d, line %d:\n  generated: %s\n  committed: %s", i, line, string(a[ls:le]), string(b[ls2:le2]))
		}
		if a[i] == '\n' {
			line++
		}
	}
	return fmt.Sprintf("lengths differ: generated %d bytes, committed %d bytes", len(a), len(b))
}

func runC20Fresh(c *core.Ctx) {
	cb := c.BuildC()
	if cb == nil {
		return
	}
	gen, err := os.ReadFile(cb.Snapshot)
	if err != nil {
		c.Infra("%v", err)
	}
	committedPath := filepath.Join(c.Repo, "release", "c", "wuffs-unsupported-snapshot.c")
	com, err := os.ReadFile(committedPath)
	if err != nil {
		c.Undecided("R4.snapshot", "release/c/wuffs-unsupported-snapshot.c", "the committed snapshot release exists", err.Error())
	} else {
		c.Check(bytes.Equal(gen, com), "R4.snapshot", "release/c/wuffs-unsupported-snapshot.c",
			"regenerating the standard library from std/ with the working tree's compiler (build-reproduction, in a scratch copy without .git) reproduces the committed snapshot byte for byte", 1,
			func() string {
				if bytes.Equal(gen, com) {
					return fmt.Sprintf("%d bytes identical", len(com))
				}
				return firstDiff(gen, com) + "\n(an edit of std/ or internal/cgen changed the generated C and the snapshot was not regenerated — or the compiler's output changed)"
			}())
	}
	// Second generation run in the same scratch tree under GOMAXPROCS=1: identical output.
	if c.Thorough() {
		cmd := exec.Command(filepath.Join(cb.Bin, "wuffs"), "gen")
		cmd.Dir = cb.Root
		env := []string{"GOMAXPROCS=1", "PATH=" + cb.Bin + string(os.PathListSeparator) + os.Getenv("PATH"), "HOME=" + os.Getenv("HOME"), "TZ=Pacific/Kiritimati", "LC_ALL=C"}
		cmd.Env = env
		if out, err := cmd.CombinedOutput(); err != nil {
			c.Fail("R4.rerun", "cmd/wuffs gen", "a second generation run succeeds", 1, err.Error()+"\n"+string(out))
		} else {
			gen2, _ := os.ReadFile(cb.Snapshot)
			c.Check(bytes.Equal(gen, gen2), "R4.rerun", "cmd/wuffs gen", "a second generation run under GOMAXPROCS=1, a different TZ and a minimal environment produces identical bytes (cross-check of the static clauses, not a proof)", 1, func() string {
				if bytes.Equal(gen, gen2) {
					return "identical"
				}
				return firstDiff(gen2, gen)
			}())
		}
	}
	// Generators: go run gen.go in scratch copies of lang/check and lib/lowleveljpeg.
	for _, g := range []struct{ dir, out string }{{"lang/check", "data.go"}, {"lib/lowleveljpeg", "data.go"}} {
		dir := filepath.Join(cb.Root, filepath.FromSlash(g.dir))
		before, err := os.ReadFile(filepath.Join(c.Repo, filepath.FromSlash(g.dir), g.out))
		if err != nil {
			c.Undecided("R4.generated", g.dir+"/"+g.out, "generated table exists", err.Error())
			continue
		}
		cmd := exec.Command("go", "run", "gen.go")
		cmd.Dir = dir
		cmd.Env = append(os.Environ(), "GOFLAGS=-mod=mod", "GOPROXY=off", "GOSUMDB=off", "GOWORK=off", "GOTOOLCHAIN=local")
		out, err := cmd.CombinedOutput()
		if err != nil {
			c.Fail("R4.generated", g.dir+"/"+g.out, "the generator runs", 1, err.Error()+"\n"+string(out))
			continue
		}
		after, _ := os.ReadFile(filepath.Join(dir, g.out))
		c.Check(bytes.Equal(before, after), "R4.generated", g.dir+"/"+g.out, "the committed generated table is exactly what its generator (`go run gen.go`) produces from the working tree (build-reproduction)", 1, func() string {
			if bytes.Equal(before, after) {
				return fmt.Sprintf("%d bytes identical", len(before))
			}
			return firstDiff(after, before)
		}())
	}
}
