package main

// idxguard_flow.go — the dataflow driver and the transfer functions of the
// engine described in idxguard.go.

import (
	"fmt"
	"go/ast"
	"go/constant"
	"go/token"
	"go/types"
	"os"
	"strings"

	"golang.org/x/tools/go/cfg"
)

var igSweepDebug = os.Getenv("WV_X_SWEEPS") != ""

func (F *igFn) showMatOf(s *igState, a bool) string {
	if s == nil {
		return "unreached"
	}
	if a {
		return F.showMat(s.a)
	}
	return F.showMat(s.g)
}

// showMat renders the finite entries of a matrix (development aid).
func (F *igFn) showMat(m igMat) string {
	if m == nil {
		return "infeasible"
	}
	var parts []string
	for i := range m {
		for j := range m[i] {
			if i == j || m[i][j] >= igInf {
				continue
			}
			switch {
			case j == 0:
				parts = append(parts, fmt.Sprintf("%s<=%d", F.nodes[i].name, m[i][j]))
			case i == 0:
				parts = append(parts, fmt.Sprintf("%s>=%d", F.nodes[j].name, -m[i][j]))
			case m[i][j] >= igAdd(m[i][0], m[0][j]):
				// implied by the two ranges
			default:
				parts = append(parts, fmt.Sprintf("%s-%s<=%d", F.nodes[i].name, F.nodes[j].name, m[i][j]))
			}
		}
	}
	return strings.Join(parts, " ")
}

// igBool: what A knew when a boolean local was assigned, per outcome.
type igBool struct{ t, f igMat }

type igState struct {
	a, g  igMat
	own   []bool
	bools map[*types.Var]igBool
	// opaque: variables that a call with a boolean or error result has received on
	// some path to here — a guard the engine does not see through may speak about them
	opaque map[*types.Var]bool
}

func (s *igState) clone() *igState {
	o := &igState{a: s.a.clone(), g: s.g.clone(), own: append([]bool(nil), s.own...), bools: map[*types.Var]igBool{}, opaque: map[*types.Var]bool{}}
	for k, v := range s.bools {
		o.bools[k] = igBool{v.t.clone(), v.f.clone()}
	}
	for k := range s.opaque {
		o.opaque[k] = true
	}
	return o
}

func igJoin(x, y *igState, widen bool) *igState {
	if x == nil {
		return y
	}
	if y == nil {
		return x
	}
	o := &igState{a: igMatJoin(x.a, y.a, widen), g: igMatJoin(x.g, y.g, widen), own: make([]bool, len(x.own)), bools: map[*types.Var]igBool{}, opaque: map[*types.Var]bool{}}
	for i := range o.own {
		o.own[i] = x.own[i] && y.own[i]
	}
	for k := range x.opaque {
		o.opaque[k] = true
	}
	for k := range y.opaque {
		o.opaque[k] = true
	}
	for k, v := range x.bools {
		if w, ok := y.bools[k]; ok {
			o.bools[k] = igBool{igMatJoin(v.t, w.t, widen), igMatJoin(v.f, w.f, widen)}
		}
	}
	return o
}

func igStateEqual(x, y *igState) bool {
	if !igMatEqual(x.a, y.a) || !igMatEqual(x.g, y.g) || len(x.bools) != len(y.bools) || len(x.opaque) != len(y.opaque) {
		return false
	}
	for k := range x.opaque {
		if !y.opaque[k] {
			return false
		}
	}
	for i := range x.own {
		if x.own[i] != y.own[i] {
			return false
		}
	}
	for k, v := range x.bools {
		w, ok := y.bools[k]
		if !ok || !igMatEqual(v.t, w.t) || !igMatEqual(v.f, w.f) {
			return false
		}
	}
	return true
}

// igRun is one dataflow run over one function.
type igRun struct {
	F     *igFn
	G     *cfg.CFG
	tagOf map[ast.Expr]ast.Expr
	in    map[*cfg.Block]*igState
	rec   bool
	iters int
	sites map[token.Pos]*igSite

	// what this run contributes to the summaries, and the summary items it read
	nParam map[*types.Func][]igParamSum
	nRet   []igIv2
	nField map[*types.Var]igIv2
	deps   map[string]int
}

func (R *igRun) envA(s *igState) *igEnv { return &igEnv{F: R.F, m: s.a, own: s.own, mode: 0} }
func (R *igRun) envG(s *igState) *igEnv { return &igEnv{F: R.F, m: s.g, own: s.own, mode: 1} }

// ---------------------------------------------------------------------------
// Permanent facts, kills, updates
// ---------------------------------------------------------------------------

func (F *igFn) permanent(m igMat, v int, mode int) bool { return F.permanentInv(m, v, mode, true) }

// rangeOnly: the type range of a node that is being assigned (its relation to
// the capacity / length partner is added once both have their new values).
func (F *igFn) rangeOnly(m igMat, v int) {
	nd := F.nodes[v]
	m.add(v, 0, nd.rng.hi)
	if nd.rng.lo > -igInf {
		m.add(0, v, -nd.rng.lo)
	}
}

func (m igMat) feasible() bool {
	if m == nil {
		return false
	}
	for i := range m {
		if m[i][i] < 0 {
			return false
		}
	}
	return true
}

// permanentInv adds what always holds of node v: its type range, len <= cap and
// (withInv) the range invariant of the field it reads. A node that has just
// been stored to is given no invariant: the stored value is what it is, and
// the invariant under construction must grow to contain it.
func (F *igFn) permanentInv(m igMat, v int, mode int, withInv bool) bool {
	nd := F.nodes[v]
	ok := m.add(v, 0, nd.rng.hi)
	if nd.rng.lo > -igInf {
		ok = m.add(0, v, -nd.rng.lo) && ok
	}
	switch nd.kind {
	case igKLen:
		if nd.other != 0 {
			ok = m.add(v, nd.other, 0) && ok
		}
	case igKCap:
		ok = m.add(nd.other, v, 0) && ok
	case igKInt:
		if withInv && nd.path != nil && len(nd.path.sel) > 0 {
			if last := nd.path.sel[len(nd.path.sel)-1]; last.field != nil {
				if iv, has := F.P.fieldRange(last.field, mode); has && !iv.empty() {
					ok = m.add(v, 0, iv.hi) && ok
					if iv.lo > -igInf {
						ok = m.add(0, v, -iv.lo) && ok
					}
				}
			}
		}
	}
	return ok
}

// tighten re-derives what the ranges of the parts of a sum node say about it (and back).
func (F *igFn) tighten(m igMat) bool {
	if m == nil {
		return false
	}
	ok := true
	for pass := 0; pass < 2; pass++ {
		for _, s := range F.sumList {
			nd := F.nodes[s]
			a, b := nd.a, nd.b
			ok = m.add(s, a, m.ub(b)) && ok
			ok = m.add(s, b, m.ub(a)) && ok
			if lb := m.lb(b); lb > -igInf {
				ok = m.add(a, s, -lb) && ok
			}
			if lb := m.lb(a); lb > -igInf {
				ok = m.add(b, s, -lb) && ok
			}
			// and back: b = s - a
			ok = m.add(b, 0, m[s][a]) && ok
			ok = m.add(a, 0, m[s][b]) && ok
			ok = m.add(0, b, m[a][s]) && ok
			ok = m.add(0, a, m[b][s]) && ok
			if !ok {
				return false
			}
		}
	}
	return ok
}

func (F *igFn) forgetNode(st *igState, v int) {
	for _, m := range []igMat{st.a, st.g} {
		m.forget(v)
	}
	F.permanent(st.a, v, 0)
	F.permanent(st.g, v, 1)
	for _, bf := range st.bools {
		for _, m := range []igMat{bf.t, bf.f} {
			if m != nil {
				m.forget(v)
				F.permanent(m, v, 0)
			}
		}
	}
}

// kill forgets the nodes selected by pred (and the sums built on them).
func (F *igFn) kill(st *igState, pred func(v int) bool) map[int]bool {
	killed := map[int]bool{}
	for v := 1; v < len(F.nodes); v++ {
		if F.nodes[v].kind != igKSum && pred(v) {
			killed[v] = true
		}
	}
	if len(killed) == 0 {
		return killed
	}
	for _, s := range F.sumList {
		if killed[F.nodes[s].a] || killed[F.nodes[s].b] {
			killed[s] = true
		}
	}
	for v := range killed {
		F.forgetNode(st, v)
		st.own[v] = false
	}
	F.tighten(st.a)
	F.tighten(st.g)
	return killed
}

// mayAlias: a store to path p may change the value read through path q.
func igMayAlias(p, q *igPath) bool {
	if p.root == q.root {
		n := len(p.sel)
		if len(q.sel) < n {
			n = len(q.sel)
		}
		same := true
		for i := 0; i < n; i++ {
			if p.sel[i] != q.sel[i] {
				if p.sel[i].field == nil && q.sel[i].field == nil {
					return false // different constant elements of the same array
				}
				same = false
				break
			}
		}
		if same {
			return true // one is a prefix of the other
		}
	}
	if f := p.lastField(); f != nil {
		return q.hasField(f)
	}
	return false
}

// igUpd: one simultaneous assignment target.
type igUpd struct {
	node   int
	la, lg igLin
	mid    [2]ast.Expr // midpoint idiom operands, when recognised
}

type igPlan struct {
	shift  bool
	lo, hi int64
	total  igIv
	rel    []igRel
}

type igRel struct {
	w  int
	iv igIv
}

func (F *igFn) plan(m igMat, v int, l igLin, targets, killed map[int]bool) igPlan {
	// a node that a call of the same statement may have changed is read as its range
	for _, w := range l.nodes() {
		if killed[w] && w != v {
			c := l.co[w]
			o := igLin{co: map[int]int64{}, iv: l.iv.add(m.iv(w).scale(c)), owned: false}
			for n, k := range l.co {
				if n != w {
					o.co[n] = k
				}
			}
			l = o
		}
	}
	if l.co[v] == 1 {
		rest := igLin{co: map[int]int64{}, iv: l.iv}
		for n, k := range l.co {
			if n != v {
				rest.co[n] = k
			}
		}
		iv := igIvOf(m, rest)
		return igPlan{shift: true, lo: iv.lo, hi: iv.hi}
	}
	p := igPlan{total: igIvOf(m, l)}
	if l.co[v] != 0 {
		return p
	}
	for _, w := range l.nodes() {
		if l.co[w] != 1 || (targets[w] && w != v) {
			continue
		}
		rest := igLin{co: map[int]int64{}, iv: l.iv}
		for n, k := range l.co {
			if n != w {
				rest.co[n] = k
			}
		}
		p.rel = append(p.rel, igRel{w, igIvOf(m, rest)})
	}
	return p
}

func (F *igFn) applyPlan(m igMat, v int, p igPlan, mode int) {
	if p.shift {
		m.shift(v, p.lo, p.hi)
		F.rangeOnly(m, v)
		return
	}
	m.forget(v)
	if !p.total.empty() {
		m.add(v, 0, p.total.hi)
		if p.total.lo > -igInf {
			m.add(0, v, -p.total.lo)
		}
	}
	for _, r := range p.rel {
		if r.iv.empty() {
			continue
		}
		m.add(v, r.w, r.iv.hi)
		if r.iv.lo > -igInf {
			m.add(r.w, v, -r.iv.lo)
		}
	}
	F.rangeOnly(m, v)
}

// assign performs the simultaneous updates ups on st (in place).
func (R *igRun) assign(st *igState, ups []igUpd, killed map[int]bool) {
	F := R.F
	if len(ups) == 0 {
		return
	}
	targets := map[int]bool{}
	for _, u := range ups {
		targets[u.node] = true
	}
	type pl struct{ a, g igPlan }
	plans := make([]pl, len(ups))
	type midFact struct{ x, y int }
	mids := make([]*midFact, len(ups))
	for i, u := range ups {
		plans[i] = pl{F.plan(st.a, u.node, u.la, targets, killed), F.plan(st.g, u.node, u.lg, targets, killed)}
		if u.mid[0] != nil {
			x, okx := F.intNode(u.mid[0])
			y, oky := F.intNode(u.mid[1])
			if okx && oky && !targets[x] && !targets[y] && !killed[x] && !killed[y] {
				mids[i] = &midFact{x, y}
			}
		}
	}
	for i, u := range ups {
		F.applyPlan(st.a, u.node, plans[i].a, 0)
		F.applyPlan(st.g, u.node, plans[i].g, 1)
		st.own[u.node] = u.la.owned
		for w := range u.la.co {
			if killed[w] {
				st.own[u.node] = false
			}
		}
		if mf := mids[i]; mf != nil {
			for _, m := range []igMat{st.a, st.g} {
				if m.lb(mf.x) >= 0 && m.lb(mf.y) >= 0 {
					for _, pr := range [][2]int{{mf.x, mf.y}, {mf.y, mf.x}} {
						lo, hi := pr[0], pr[1]
						if m[lo][hi] <= 0 { // lo <= hi: lo <= mid <= hi, and mid < hi when lo < hi
							m.add(lo, u.node, 0)
							if m[lo][hi] <= -1 {
								m.add(u.node, hi, -1)
							} else {
								m.add(u.node, hi, 0)
							}
							break
						}
					}
				}
			}
			st.own[u.node] = st.own[mf.x] && st.own[mf.y]
		}
		for _, bf := range st.bools {
			for _, m := range []igMat{bf.t, bf.f} {
				if m != nil {
					m.forget(u.node)
					F.permanent(m, u.node, 0)
				}
			}
		}
	}
	// len <= cap of the slices whose header was assigned
	for _, u := range ups {
		if nd := F.nodes[u.node]; (nd.kind == igKLen || nd.kind == igKCap) && nd.other != 0 {
			l, c := u.node, nd.other
			if nd.kind == igKCap {
				l, c = nd.other, u.node
			}
			st.a.add(l, c, 0)
			st.g.add(l, c, 0)
		}
	}
	// sums over updated parts
	for _, s := range F.sumList {
		nd := F.nodes[s]
		if !targets[nd.a] && !targets[nd.b] {
			continue
		}
		for k, m := range []igMat{st.a, st.g} {
			lo, hi := int64(0), int64(0)
			allShift := true
			for i, u := range ups {
				if u.node != nd.a && u.node != nd.b {
					continue
				}
				p := plans[i].a
				if k == 1 {
					p = plans[i].g
				}
				if !p.shift {
					allShift = false
					break
				}
				lo, hi = igAdd(lo, p.lo), igAdd(hi, p.hi)
			}
			if allShift {
				m.shift(s, lo, hi)
			} else {
				m.forget(s)
			}
		}
		for _, bf := range st.bools {
			for _, m := range []igMat{bf.t, bf.f} {
				if m != nil {
					m.forget(s)
				}
			}
		}
	}
	F.tighten(st.a)
	F.tighten(st.g)
}

// ---------------------------------------------------------------------------
// Calls
// ---------------------------------------------------------------------------

// callsIn lists the calls evaluated as part of n (not those inside function literals).
func igCallsIn(n ast.Node) []*ast.CallExpr {
	var out []*ast.CallExpr
	ast.Inspect(n, func(m ast.Node) bool {
		switch v := m.(type) {
		case *ast.FuncLit, *ast.BlockStmt:
			return false
		case *ast.CallExpr:
			out = append(out, v)
		}
		return true
	})
	return out
}

// applyCalls forgets what the calls inside n may change. dead: one of them does not return.
func (R *igRun) applyCalls(st *igState, n ast.Node) (killed map[int]bool, dead bool) {
	F := R.F
	killed = map[int]bool{}
	for _, call := range igCallsIn(n) {
		F.noteOpaque(st, call)
		eff := F.P.callEffect(F, call)
		if eff.dead {
			dead = true
		}
		if eff.none() {
			continue
		}
		k := F.kill(st, func(v int) bool {
			p := F.nodes[v].path
			if p == nil || len(p.sel) == 0 {
				return false
			}
			for _, s := range p.sel {
				if s.field == nil {
					continue
				}
				if eff.fields[s.field] {
					return true
				}
				if eff.ext && F.P.extKillable(s.field) {
					return true
				}
			}
			// an element of an array: code outside the package may hold a slice of the array,
			// and a callee may store to the element through its own pointer to the array
			if p.endsInIndex() && (eff.ext || eff.fields[igElemToken]) {
				return true
			}
			return false
		})
		for v := range k {
			killed[v] = true
		}
	}
	return killed, dead
}

// noteOpaque: a call (not a builtin, not a conversion) with a boolean or error
// result may be a guard written as a helper; the variables it receives are remembered.
func (F *igFn) noteOpaque(st *igState, call *ast.CallExpr) {
	if F.builtin(call) != "" {
		return
	}
	if _, conv := F.isConversion(call); conv {
		return
	}
	t := F.typeOf(call)
	if t == nil {
		return
	}
	isGuardish := func(t types.Type) bool {
		if b, ok := t.Underlying().(*types.Basic); ok && b.Info()&types.IsBoolean != 0 {
			return true
		}
		if n, ok := t.(*types.Named); ok && n.Obj().Pkg() == nil && n.Obj().Name() == "error" {
			return true
		}
		return false
	}
	guardish := isGuardish(t)
	if tup, ok := t.(*types.Tuple); ok {
		for i := 0; i < tup.Len(); i++ {
			if isGuardish(tup.At(i).Type()) {
				guardish = true
			}
		}
	}
	if !guardish {
		return
	}
	mark := func(e ast.Node) {
		ast.Inspect(e, func(m ast.Node) bool {
			if _, lit := m.(*ast.FuncLit); lit {
				return false
			}
			if id, ok := m.(*ast.Ident); ok {
				if v, ok := F.info.Uses[id].(*types.Var); ok && !v.IsField() && v.Pkg() != nil && v.Parent() != v.Pkg().Scope() {
					st.opaque[v] = true
				}
			}
			return true
		})
	}
	for _, a := range call.Args {
		mark(a)
	}
	if sel, ok := ast.Unparen(call.Fun).(*ast.SelectorExpr); ok {
		mark(sel.X)
	}
}

// ---------------------------------------------------------------------------
// Post-conditions of accesses that did not panic
// ---------------------------------------------------------------------------

// unconditionalSites: the index / slice expressions that are certainly
// evaluated when n is (not those under && / || or inside function literals).
func igUnconditionalSites(n ast.Node) []ast.Expr {
	var out []ast.Expr
	ast.Inspect(n, func(m ast.Node) bool {
		switch v := m.(type) {
		case *ast.FuncLit, *ast.BlockStmt:
			return false
		case *ast.BinaryExpr:
			if v.Op == token.LAND || v.Op == token.LOR {
				return false
			}
		case *ast.IndexExpr:
			out = append(out, v)
		case *ast.SliceExpr:
			out = append(out, v)
		}
		return true
	})
	return out
}

// assumeSites adds what a successful evaluation of the accesses in n implies
// (to A and to G alike: it is a fact of the execution, not a guard).
func (R *igRun) assumeSites(st *igState, n ast.Node, killed map[int]bool) bool {
	if st.a == nil || st.g == nil {
		return false
	}
	sites := igUnconditionalSites(n)
	if len(sites) == 0 {
		return true
	}
	for k, m := range []igMat{st.a, st.g} {
		E := R.envA(st)
		if k == 1 {
			E = R.envG(st)
		}
		for _, e := range sites {
			obs, _, ok := R.obligations(e, E)
			if !ok {
				continue
			}
			for _, ob := range obs {
				skip := false
				for _, nd := range ob.l.nodes() {
					if killed[nd] {
						skip = true
					}
				}
				if skip {
					continue
				}
				if !R.assumeLE(m, ob.l, 0, false) {
					return false
				}
			}
		}
		if !R.F.tighten(m) {
			return false
		}
	}
	return true
}

// ---------------------------------------------------------------------------
// Guards
// ---------------------------------------------------------------------------

// assumeLE refines m by l <= c. Returns false when that is infeasible.
func (R *igRun) assumeLE(m igMat, l igLin, c int64, noteLossy bool) bool {
	F := R.F
	if l.bottom || l.iv.empty() {
		return false
	}
	if l.iv.lo <= -igInf {
		return true // l = nodes + K with K unbounded below: nothing follows
	}
	B := igAdd(c, -l.iv.lo) // node part <= B
	P := igLin{co: l.co, iv: igPt(0)}
	nodes := P.nodes()
	if len(nodes) == 0 {
		return B >= 0
	}
	ok := true
	if len(nodes) > 2 && noteLossy {
		for _, n := range nodes {
			F.lossy[n] = "a comparison of more than two tracked quantities"
		}
	}
	for _, x := range nodes {
		cx := P.co[x]
		rest := igLin{co: map[int]int64{}, iv: igPt(0)}
		for n, k := range P.co {
			if n != x {
				rest.co[n] = k
			}
		}
		lbRest := igLB(m, rest)
		if lbRest <= -igInf {
			continue
		}
		room := igAdd(B, -lbRest) // cx * x <= room
		if room >= igInf {
			continue
		}
		switch {
		case cx == 1:
			ok = m.add(x, 0, room) && ok
		case cx == -1:
			ok = m.add(0, x, room) && ok
		case cx > 1:
			ok = m.add(x, 0, igFloorDiv(room, cx)) && ok
		case cx < -1:
			// cx*x <= room  <=>  x >= ceil(room / cx) = -floor(room / -cx)
			ok = m.add(0, x, igFloorDiv(room, -cx)) && ok
			if noteLossy {
				F.lossy[x] = "a comparison with a scaled quantity"
			}
		}
		if cx > 1 && noteLossy && len(nodes) > 1 {
			F.lossy[x] = "a comparison with a scaled quantity"
		}
		if !ok {
			return false
		}
	}
	// pairs x - y <= B - lb(rest)
	for _, x := range nodes {
		if P.co[x] != 1 {
			continue
		}
		for _, y := range nodes {
			if P.co[y] != -1 {
				continue
			}
			rest := igLin{co: map[int]int64{}, iv: igPt(0)}
			for n, k := range P.co {
				if n != x && n != y {
					rest.co[n] = k
				}
			}
			lbRest := igLB(m, rest)
			if lbRest <= -igInf {
				continue
			}
			if !m.add(x, y, igAdd(B, -lbRest)) {
				return false
			}
		}
	}
	return ok
}

func igFloorDiv(a, b int64) int64 {
	q := a / b
	if (a%b != 0) && ((a < 0) != (b < 0)) {
		q--
	}
	return q
}

func igNegate(op token.Token) token.Token {
	switch op {
	case token.LSS:
		return token.GEQ
	case token.LEQ:
		return token.GTR
	case token.GTR:
		return token.LEQ
	case token.GEQ:
		return token.LSS
	case token.EQL:
		return token.NEQ
	case token.NEQ:
		return token.EQL
	}
	return op
}

// assumeCmp refines m by (l op 0).
func (R *igRun) assumeCmp(m igMat, l igLin, op token.Token, note bool) igMat {
	if m == nil {
		return nil
	}
	o := m.clone()
	ok := true
	switch op {
	case token.LSS:
		ok = R.assumeLE(o, l, -1, note)
	case token.LEQ:
		ok = R.assumeLE(o, l, 0, note)
	case token.GTR:
		ok = R.assumeLE(o, l.scaled(-1), -1, note)
	case token.GEQ:
		ok = R.assumeLE(o, l.scaled(-1), 0, note)
	case token.EQL:
		ok = R.assumeLE(o, l, 0, note) && R.assumeLE(o, l.scaled(-1), 0, note)
	case token.NEQ:
		// x - y + k != 0 tightens a bound that sits exactly at the excluded value
		if l.iv.isPoint() && len(l.co) <= 2 {
			x, y, good := 0, 0, true
			for n, c := range l.co {
				switch {
				case c == 1 && x == 0:
					x = n
				case c == -1 && y == 0:
					y = n
				default:
					good = false
				}
			}
			k := l.iv.lo
			switch {
			case !good:
			case x == 0 && y == 0:
				ok = k != 0
			default:
				if o[x][y] == -k {
					ok = o.add(x, y, -k-1)
				}
				if ok && o[y][x] == k {
					ok = o.add(y, x, k-1)
				}
			}
		}
	}
	if !ok || !R.F.tighten(o) {
		return nil
	}
	return o
}

func (R *igRun) with(s *igState, a igMat) *igState {
	if a == nil {
		return nil
	}
	o := s.clone()
	o.a = a
	return o
}

// refine: e is a boolean leaf (no &&, ||, !).
func (R *igRun) refine(e ast.Expr, s0 *igState) (t, f *igState) {
	F := R.F
	s := s0.clone()
	killed, dead := R.applyCalls(s, e)
	if dead {
		return nil, nil
	}
	if !R.assumeSites(s, e, killed) {
		return nil, nil
	}
	if tv, ok := F.info.Types[e]; ok && tv.Value != nil && tv.Value.Kind() == constant.Bool {
		if constant.BoolVal(tv.Value) {
			return s, nil
		}
		return nil, s
	}
	switch v := e.(type) {
	case *ast.Ident:
		if o := F.varOf(v); o != nil {
			if bf, ok := s.bools[o]; ok {
				return R.with(s, igMatMeet(s.a, bf.t)), R.with(s, igMatMeet(s.a, bf.f))
			}
		}
	case *ast.BinaryExpr:
		switch v.Op {
		case token.LSS, token.LEQ, token.GTR, token.GEQ, token.EQL, token.NEQ:
		default:
			return s, s
		}
		// s == "" / s != "" / s == "lit" / x == nil on a tracked string or slice
		if v.Op == token.EQL || v.Op == token.NEQ {
			for _, pr := range [][2]ast.Expr{{v.X, v.Y}, {v.Y, v.X}} {
				L, isSeq := F.lenNode(pr[0])
				if !isSeq {
					continue
				}
				tv, ok := F.info.Types[pr[1]]
				if !ok {
					continue
				}
				n := int64(-1)
				if tv.Value != nil && tv.Value.Kind() == constant.String {
					n = int64(len(constant.StringVal(tv.Value)))
				} else if tv.IsNil() {
					n = 0
				} else {
					continue
				}
				ll := igLin{co: map[int]int64{L: 1}, iv: igPt(-n)}
				eq := R.with(s, R.assumeCmp(s.a, ll, token.EQL, false))
				ne := s
				if n == 0 && !tv.IsNil() {
					ne = R.with(s, R.assumeCmp(s.a, ll, token.NEQ, false))
				}
				if v.Op == token.EQL {
					return eq, ne
				}
				return ne, eq
			}
		}
		if !igIsInteger(F.typeOf(v.X)) || !igIsInteger(F.typeOf(v.Y)) {
			return s, s
		}
		E := R.envA(s)
		a, b := E.eval(v.X), E.eval(v.Y)
		if a.bottom || b.bottom {
			return nil, nil
		}
		l := E.normalize(a.minus(b))
		for nd := range l.co {
			if killed[nd] {
				return s, s // a quantity that a call in the same condition may change
			}
		}
		ta, fa := R.assumeCmp(s.a, l, v.Op, true), R.assumeCmp(s.a, l, igNegate(v.Op), true)
		tg, fg := s.g, s.g
		if !l.iv.isPoint() {
			// an indirect guard: it bounds tracked quantities against a value the engine does
			// not track (an element, a call result ...). It is not a guard "about" an index
			// and a length, so the guard-free analysis G keeps it.
			EG := R.envG(s)
			lg := EG.normalize(EG.eval(v.X).minus(EG.eval(v.Y)))
			tg, fg = R.assumeCmp(s.g, lg, v.Op, false), R.assumeCmp(s.g, lg, igNegate(v.Op), false)
		}
		mk := func(ma, mg igMat) *igState {
			if ma == nil || mg == nil {
				return nil
			}
			o := s.clone()
			o.a, o.g = ma, mg
			return o
		}
		return mk(ta, tg), mk(fa, fg)
	}
	return s, s
}

// ---------------------------------------------------------------------------
// Statements
// ---------------------------------------------------------------------------

// midpoint recognises (x + y) >> 1 and (x + y) / 2 (through integer conversions).
func (F *igFn) midpoint(e ast.Expr) (x, y ast.Expr, ok bool) {
	for {
		e = ast.Unparen(e)
		call, isCall := e.(*ast.CallExpr)
		if !isCall {
			break
		}
		t, conv := F.isConversion(call)
		if !conv || !igIsInteger(t) {
			return nil, nil, false
		}
		e = call.Args[0]
	}
	be, isBin := e.(*ast.BinaryExpr)
	if !isBin {
		return nil, nil, false
	}
	k, isConst := F.constInt(be.Y)
	if !isConst || !((be.Op == token.SHR && k == 1) || (be.Op == token.QUO && k == 2)) {
		return nil, nil, false
	}
	in := be.X
	for {
		in = ast.Unparen(in)
		call, isCall := in.(*ast.CallExpr)
		if !isCall {
			break
		}
		t, conv := F.isConversion(call)
		if !conv || !igIsInteger(t) {
			return nil, nil, false
		}
		in = call.Args[0]
	}
	sum, isSum := in.(*ast.BinaryExpr)
	if !isSum || sum.Op != token.ADD {
		return nil, nil, false
	}
	if _, okx := F.intNode(sum.X); !okx {
		return nil, nil, false
	}
	if _, oky := F.intNode(sum.Y); !oky {
		return nil, nil, false
	}
	return sum.X, sum.Y, true
}

// storeKills: the other nodes a store to the storage denoted by lhs may change.
func (R *igRun) storeKills(st *igState, lhs ast.Expr, keep map[int]bool) map[int]bool {
	F := R.F
	lhs = ast.Unparen(lhs)
	var p *igPath
	whole := false // the store replaces the whole object at p (or an unknown part of it)
	switch v := lhs.(type) {
	case *ast.IndexExpr:
		if q := F.pathOf(lhs); q != nil {
			p = q
		} else if _, isArr := igArrayLen(F.typeOf(v.X)); isArr {
			// a[e] with a non-constant e: any element of the array at path(a)
			p = F.pathOf(v.X)
			whole = true
		} else {
			return nil // an element of a slice / map: no tracked quantity changes
		}
		if p != nil && whole {
			// every element node below p, and the same array reached through other paths
			at := igArrayType(F.typeOf(v.X))
			return F.kill(st, func(n int) bool {
				q := F.nodes[n].path
				if q == nil || keep[n] {
					return false
				}
				return igMayAlias(p, q) || (at != nil && q.arr != nil && types.Identical(at, q.arr))
			})
		}
	case *ast.StarExpr:
		if q := F.pathOf(lhs); q != nil {
			p, whole = q, true
		} else {
			// a store through some other pointer: fields whose address is taken
			return F.kill(st, func(n int) bool {
				q := F.nodes[n].path
				if q == nil {
					return false
				}
				for _, s := range q.sel {
					if s.field != nil && F.P.addrTaken[s.field] {
						return true
					}
				}
				return false
			})
		}
	default:
		p = F.pathOf(lhs)
	}
	if p == nil {
		// not a path: x.f / a[i] where x, a are not trackable — the field and element rules still apply
		var f *types.Var
		if sel, ok := lhs.(*ast.SelectorExpr); ok {
			f = F.fieldOfSelector(sel)
		}
		structFields := map[*types.Var]bool{}
		if t := F.typeOf(lhs); t != nil {
			if stt, ok := t.Underlying().(*types.Struct); ok {
				igAllFields(stt, structFields, 0)
			}
		}
		var elemOf types.Type
		if ix, ok := lhs.(*ast.IndexExpr); ok {
			elemOf = igArrayType(F.typeOf(ix.X))
			if sel, ok := ast.Unparen(ix.X).(*ast.SelectorExpr); ok && elemOf != nil {
				f = F.fieldOfSelector(sel)
			}
		}
		if f == nil && len(structFields) == 0 && elemOf == nil {
			return nil
		}
		return F.kill(st, func(n int) bool {
			q := F.nodes[n].path
			if q == nil || keep[n] {
				return false
			}
			if f != nil && q.hasField(f) {
				return true
			}
			for _, sl := range q.sel {
				if sl.field != nil && structFields[sl.field] {
					return true
				}
			}
			return elemOf != nil && q.arr != nil && types.Identical(elemOf, q.arr)
		})
	}
	// a store of a whole struct changes every field of that struct type, through whatever alias;
	// a store to an array element may be a store to the same element reached through another path
	structFields := map[*types.Var]bool{}
	if t := F.typeOf(lhs); t != nil {
		if stt, ok := t.Underlying().(*types.Struct); ok {
			igAllFields(stt, structFields, 0)
		}
	}
	var elemOf types.Type
	if ix, ok := lhs.(*ast.IndexExpr); ok {
		elemOf = igArrayType(F.typeOf(ix.X))
	}
	_ = whole
	return F.kill(st, func(n int) bool {
		q := F.nodes[n].path
		if q == nil || keep[n] {
			return false
		}
		if igMayAlias(p, q) {
			return true
		}
		for _, sl := range q.sel {
			if sl.field != nil && structFields[sl.field] {
				return true
			}
		}
		if elemOf != nil && q.arr != nil && types.Identical(elemOf, q.arr) {
			if p.endsInIndex() && q.endsInIndex() && p.root == q.root && len(p.sel) == len(q.sel) {
				same := true
				for i := 0; i < len(p.sel)-1; i++ {
					if p.sel[i] != q.sel[i] {
						same = false
					}
				}
				if same && p.sel[len(p.sel)-1] != q.sel[len(q.sel)-1] {
					return false // another constant element of the very same array
				}
			}
			return true
		}
		return false
	})
}

func (R *igRun) effect(n ast.Node, s0 *igState) *igState {
	F := R.F
	st := s0.clone()
	killed, dead := R.applyCalls(st, n)
	if dead {
		return nil
	}
	if !R.assumeSites(st, n, killed) {
		return nil
	}
	EA, EG := R.envA(st), R.envG(st)

	type target struct {
		lhs                    ast.Expr
		node                   int // int node or len node (0: none)
		capNode                int
		isSeq                  bool
		boolVar                *types.Var
		lenA, lenG, capA, capG igLin
		la, lg                 igLin
		mid                    [2]ast.Expr
		bools                  *igBool
		copyArgs               []ast.Expr // n := copy(dst, src): n <= len(dst), n <= len(src)
	}
	var tgts []target
	classify := func(lhs ast.Expr) target {
		t := target{lhs: lhs}
		if id, ok := ast.Unparen(lhs).(*ast.Ident); ok && id.Name == "_" {
			return t
		}
		if nd, ok := F.intNode(lhs); ok {
			t.node = nd
			return t
		}
		if nd, ok := F.lenNode(lhs); ok {
			t.node, t.isSeq = nd, true
			if c, ok := F.capNode(lhs); ok {
				t.capNode = c
			}
			return t
		}
		if o := F.varOf(lhs); o != nil {
			if bt, ok := o.Type().Underlying().(*types.Basic); ok && bt.Info()&types.IsBoolean != 0 {
				if _, bad := F.untrack[o]; !bad && !o.IsField() && o.Pkg() != nil && o.Parent() != o.Pkg().Scope() {
					t.boolVar = o
				}
			}
		}
		return t
	}
	typeRange := func(lhs ast.Expr) igLin {
		if tp := F.typeOf(lhs); tp != nil {
			if rng, ok := igTypeRange(tp); ok {
				return igAnon(rng)
			}
		}
		return igAnon(igTop)
	}
	setValue := func(t *target, rhs ast.Expr) {
		switch {
		case t.node != 0 && !t.isSeq:
			t.la, t.lg = EA.normalize(EA.eval(rhs)), EG.normalize(EG.eval(rhs))
			if x, y, ok := F.midpoint(rhs); ok {
				t.mid = [2]ast.Expr{x, y}
			}
			if call, ok := ast.Unparen(rhs).(*ast.CallExpr); ok && F.builtin(call) == "copy" && len(call.Args) == 2 {
				t.copyArgs = call.Args
				t.la, t.lg = igAnon(igNonNeg), igAnon(igNonNeg)
			}
		case t.node != 0:
			var ok1, ok2 bool
			t.lenA, t.capA, ok1 = EA.seqVal(rhs)
			t.lenG, t.capG, ok2 = EG.seqVal(rhs)
			if !ok1 || !ok2 {
				t.lenA, t.capA, t.lenG, t.capG = igAnon(igNonNeg), igAnon(igNonNeg), igAnon(igNonNeg), igAnon(igNonNeg)
			}
			t.lenA, t.capA, t.lenG, t.capG = EA.normalize(t.lenA), EA.normalize(t.capA), EG.normalize(t.lenG), EG.normalize(t.capG)
		case t.boolVar != nil:
			var tt, ff *igState
			R.quiet(func() { tt, ff = R.cond(rhs, s0) })
			zb := igBool{}
			if tt != nil {
				zb.t = tt.a
			}
			if ff != nil {
				zb.f = ff.a
			}
			t.bools = &zb
		}
	}
	setUnknown := func(t *target, k int, call *ast.CallExpr) {
		switch {
		case t.node != 0 && !t.isSeq:
			t.la, t.lg = typeRange(t.lhs), typeRange(t.lhs)
			if call != nil {
				if fn := F.P.staticCallee(F.info, call); fn != nil {
					for mode, dst := range []*igLin{&t.la, &t.lg} {
						if rs, ok := F.P.retRange(fn, k, mode); ok {
							if rs.empty() {
								*dst = igLin{iv: igBottom, bottom: true}
							} else {
								*dst = igAnon(rs.meet(dst.iv))
							}
						}
					}
				}
			}
		case t.node != 0:
			t.lenA, t.capA, t.lenG, t.capG = igAnon(igNonNeg), igAnon(igNonNeg), igAnon(igNonNeg), igAnon(igNonNeg)
		}
	}

	switch v := n.(type) {
	case *ast.IncDecStmt:
		t := classify(v.X)
		if t.node != 0 && !t.isSeq {
			op := token.ADD
			if v.Tok == token.DEC {
				op = token.SUB
			}
			one := igConstLin(1)
			if op == token.SUB {
				one = igConstLin(-1)
			}
			tp := F.typeOf(v.X)
			t.la = EA.fit(EA.eval(v.X).plus(one), tp)
			t.lg = EG.fit(EG.eval(v.X).plus(one), tp)
		}
		tgts = append(tgts, t)
	case *ast.AssignStmt:
		for _, l := range v.Lhs {
			tgts = append(tgts, classify(l))
		}
		switch {
		case v.Tok == token.ASSIGN || v.Tok == token.DEFINE:
			if len(v.Lhs) == len(v.Rhs) {
				for i := range tgts {
					setValue(&tgts[i], v.Rhs[i])
				}
			} else {
				call, _ := ast.Unparen(v.Rhs[0]).(*ast.CallExpr)
				for i := range tgts {
					setUnknown(&tgts[i], i, call)
				}
			}
		case len(v.Lhs) == 1 && len(v.Rhs) == 1:
			t := &tgts[0]
			if t.node != 0 && !t.isSeq {
				op, ok := igAssignOp[v.Tok]
				tp := F.typeOf(v.Lhs[0])
				if ok && igIsInteger(tp) {
					be := &ast.BinaryExpr{X: v.Lhs[0], Op: op, Y: v.Rhs[0]}
					t.la = EA.normalize(EA.evalBinary(be, tp))
					t.lg = EG.normalize(EG.evalBinary(be, tp))
				} else {
					t.la, t.lg = typeRange(t.lhs), typeRange(t.lhs)
				}
			} else if t.node != 0 {
				setUnknown(t, 0, nil)
			}
		}
	case *ast.DeclStmt:
		gd, ok := v.Decl.(*ast.GenDecl)
		if !ok {
			return st
		}
		for _, sp := range gd.Specs {
			vs, ok := sp.(*ast.ValueSpec)
			if !ok {
				continue
			}
			for i, id := range vs.Names {
				t := classify(id)
				switch {
				case len(vs.Values) == 0:
					if t.node != 0 && !t.isSeq {
						t.la, t.lg = igConstLin(0), igConstLin(0)
					} else if t.node != 0 {
						t.lenA, t.capA, t.lenG, t.capG = igConstLin(0), igConstLin(0), igConstLin(0), igConstLin(0)
					} else if t.boolVar != nil {
						t.bools = nil
					}
				case len(vs.Values) == len(vs.Names):
					setValue(&t, vs.Values[i])
				default:
					call, _ := ast.Unparen(vs.Values[0]).(*ast.CallExpr)
					setUnknown(&t, i, call)
				}
				tgts = append(tgts, t)
			}
		}
	default:
		if !st.a.feasible() || !st.g.feasible() {
			return nil
		}
		return st
	}

	// bottom values: the statement does not complete
	for _, t := range tgts {
		if t.la.bottom || t.lenA.bottom {
			return nil
		}
	}
	// what the stores may change besides their own nodes
	keep := map[int]bool{}
	for _, t := range tgts {
		if t.node != 0 {
			keep[t.node] = true
			if t.capNode != 0 {
				keep[t.capNode] = true
			}
		}
	}
	for _, t := range tgts {
		if id, ok := ast.Unparen(t.lhs).(*ast.Ident); ok && id.Name == "_" {
			continue
		}
		for k := range R.storeKills(st, t.lhs, keep) {
			killed[k] = true
		}
	}
	var ups []igUpd
	for _, t := range tgts {
		if t.boolVar != nil {
			delete(st.bools, t.boolVar)
		}
		switch {
		case t.node != 0 && !t.isSeq:
			ups = append(ups, igUpd{node: t.node, la: t.la, lg: t.lg, mid: t.mid})
		case t.node != 0:
			ups = append(ups, igUpd{node: t.node, la: t.lenA, lg: t.lenG})
			if t.capNode != 0 {
				ups = append(ups, igUpd{node: t.capNode, la: t.capA, lg: t.capG})
			}
		}
	}
	R.assign(st, ups, killed)
	for _, t := range tgts {
		for _, a := range t.copyArgs {
			if L, ok := F.lenNode(a); ok && !keep[L] && !killed[L] {
				st.a.add(t.node, L, 0)
				st.g.add(t.node, L, 0)
			}
		}
	}
	for _, t := range tgts {
		if t.node != 0 && t.isSeq && t.capNode != 0 {
			st.a.add(t.node, t.capNode, 0)
			st.g.add(t.node, t.capNode, 0)
		}
	}
	for _, t := range tgts {
		if t.bools != nil {
			// the stored facts must not mention quantities changed by this very statement
			for _, u := range ups {
				for _, m := range []igMat{t.bools.t, t.bools.f} {
					if m != nil {
						m.forget(u.node)
					}
				}
			}
			for k := range killed {
				for _, m := range []igMat{t.bools.t, t.bools.f} {
					if m != nil {
						m.forget(k)
					}
				}
			}
			st.bools[t.boolVar] = *t.bools
		}
	}
	if R.rec {
		for _, t := range tgts {
			R.F.P.noteStore(R, st, t.lhs, t.node)
		}
	}
	if !st.a.feasible() || !st.g.feasible() {
		return nil
	}
	return st
}

var igAssignOp = map[token.Token]token.Token{
	token.ADD_ASSIGN: token.ADD, token.SUB_ASSIGN: token.SUB, token.MUL_ASSIGN: token.MUL, token.QUO_ASSIGN: token.QUO,
	token.REM_ASSIGN: token.REM, token.AND_ASSIGN: token.AND, token.OR_ASSIGN: token.OR, token.XOR_ASSIGN: token.XOR,
	token.SHL_ASSIGN: token.SHL, token.SHR_ASSIGN: token.SHR, token.AND_NOT_ASSIGN: token.AND_NOT,
}

// rangeHead: the state at the start of an iteration of rs.
func (R *igRun) rangeHead(rs *ast.RangeStmt, s0 *igState) *igState {
	F := R.F
	st := s0.clone()
	keep := map[int]bool{}
	var ups []igUpd
	killed := map[int]bool{}
	xt := F.typeOf(rs.X)
	keyIsIndex := igRangeKeyIsIndex(xt)
	if rs.Key != nil {
		if nd, ok := F.intNode(rs.Key); ok {
			keep[nd] = true
			l := igAnon(F.nodes[nd].rng)
			if keyIsIndex {
				hi := igInf
				if n, isArr := igArrayLen(xt); isArr {
					hi = n - 1
				}
				l = igLin{iv: igIv{0, hi}, owned: true}
			}
			ups = append(ups, igUpd{node: nd, la: l, lg: l})
		} else if id, ok := ast.Unparen(rs.Key).(*ast.Ident); !ok || id.Name != "_" {
			for k := range R.storeKills(st, rs.Key, keep) {
				killed[k] = true
			}
		}
	}
	if rs.Value != nil {
		if nd, ok := F.intNode(rs.Value); ok {
			keep[nd] = true
			la, lg := igAnon(F.nodes[nd].rng), igAnon(F.nodes[nd].rng)
			if ix, ok := F.P.tableRangeOf(F, rs.X); ok {
				la, lg = igAnon(ix.meet(la.iv)), igAnon(ix.meet(lg.iv))
			}
			ups = append(ups, igUpd{node: nd, la: la, lg: lg})
		} else if nd, ok := F.lenNode(rs.Value); ok {
			ups = append(ups, igUpd{node: nd, la: igAnon(igNonNeg), lg: igAnon(igNonNeg)})
			if c, ok := F.capNode(rs.Value); ok {
				ups = append(ups, igUpd{node: c, la: igAnon(igNonNeg), lg: igAnon(igNonNeg)})
			}
		} else if id, ok := ast.Unparen(rs.Value).(*ast.Ident); !ok || id.Name != "_" {
			for k := range R.storeKills(st, rs.Value, keep) {
				killed[k] = true
			}
		}
	}
	R.assign(st, ups, killed)
	if rs.Key != nil && keyIsIndex {
		if key, ok := F.intNode(rs.Key); ok {
			// key < len(X): X is evaluated once; kept only when X is not changed in the body
			if L, ok := F.lenNode(rs.X); ok && F.stableIn(rs.Body, rs.X) {
				st.a.add(key, L, -1)
				st.g.add(key, L, -1)
			} else if igIsInteger(xt) {
				if n, ok := F.intNode(rs.X); ok && F.stableIn(rs.Body, rs.X) {
					st.a.add(key, n, -1)
					st.g.add(key, n, -1)
				}
			}
		}
	}
	if !st.a.feasible() || !st.g.feasible() {
		return nil
	}
	return st
}

func igRangeKeyIsIndex(t types.Type) bool {
	if t == nil {
		return false
	}
	switch u := t.Underlying().(type) {
	case *types.Slice, *types.Array:
		return true
	case *types.Pointer:
		_, isArr := u.Elem().Underlying().(*types.Array)
		return isArr
	case *types.Basic:
		return u.Info()&(types.IsString|types.IsInteger) != 0
	}
	return false
}

// stableIn: nothing in body can change the quantity denoted by the path expression x.
func (F *igFn) stableIn(body ast.Node, x ast.Expr) bool {
	p := F.pathOf(x)
	if p == nil {
		return false
	}
	stable := true
	check := func(lhs ast.Expr) {
		lhs = ast.Unparen(lhs)
		if q := F.pathOf(lhs); q != nil {
			if igMayAlias(q, p) {
				stable = false
			}
			return
		}
		switch v := lhs.(type) {
		case *ast.SelectorExpr:
			if f := F.fieldOfSelector(v); f != nil && p.hasField(f) {
				stable = false
			}
		case *ast.IndexExpr:
			if _, isArr := igArrayLen(F.typeOf(v.X)); isArr {
				if q := F.pathOf(v.X); q != nil && igMayAlias(q, p) {
					stable = false
				}
			}
		case *ast.StarExpr:
			if len(p.sel) > 0 {
				stable = false
			}
		}
	}
	ast.Inspect(body, func(n ast.Node) bool {
		switch v := n.(type) {
		case *ast.FuncLit:
			return false
		case *ast.AssignStmt:
			for _, l := range v.Lhs {
				check(l)
			}
		case *ast.IncDecStmt:
			check(v.X)
		case *ast.RangeStmt:
			if v.Key != nil {
				check(v.Key)
			}
			if v.Value != nil {
				check(v.Value)
			}
		case *ast.CallExpr:
			if len(p.sel) > 0 {
				eff := F.P.callEffect(F, v)
				for _, s := range p.sel {
					if s.field != nil && (eff.fields[s.field] || (eff.ext && F.P.extKillable(s.field))) {
						stable = false
					}
				}
			}
		}
		return stable
	})
	return stable
}

// ---------------------------------------------------------------------------
// The driver (after c11Driver): && / || / ! are walked in evaluation order
// ---------------------------------------------------------------------------

func (R *igRun) cond(e ast.Expr, s *igState) (t, f *igState) {
	if s == nil {
		return nil, nil
	}
	switch v := ast.Unparen(e).(type) {
	case *ast.BinaryExpr:
		switch v.Op {
		case token.LAND:
			at, af := R.cond(v.X, s)
			bt, bf := R.cond(v.Y, at)
			return bt, igJoin(af, bf, false)
		case token.LOR:
			at, af := R.cond(v.X, s)
			bt, bf := R.cond(v.Y, af)
			return igJoin(at, bt, false), bf
		}
	case *ast.UnaryExpr:
		if v.Op == token.NOT {
			t, f = R.cond(v.X, s)
			return f, t
		}
	}
	R.scan(e, s)
	return R.refine(ast.Unparen(e), s)
}

// scan offers the accesses, calls and returns inside n to the recorder, with
// && / || operands seen in the state their evaluation implies.
func (R *igRun) scan(n ast.Node, s *igState) {
	if n == nil || s == nil {
		return
	}
	var post *igState // the state after the calls inside n
	get := func() *igState {
		if post == nil {
			post = s.clone()
			R.applyCalls(post, n)
		}
		return post
	}
	hasCalls := len(igCallsIn(n)) > 0
	ast.Inspect(n, func(m ast.Node) bool {
		switch v := m.(type) {
		case nil:
			return false
		case *ast.BlockStmt, *ast.FuncLit:
			return false
		case *ast.BinaryExpr:
			if v.Op == token.LAND || v.Op == token.LOR {
				R.cond(v, s)
				return false
			}
		case *ast.UnaryExpr:
			if v.Op == token.NOT {
				R.cond(v, s)
				return false
			}
		}
		if R.rec {
			st := s
			if hasCalls {
				st = get()
			}
			R.use(m, s, st)
		}
		return true
	})
}

func (R *igRun) quiet(f func()) {
	old := R.rec
	R.rec = false
	f()
	R.rec = old
}

func (R *igRun) isBool(e ast.Expr) bool {
	if tv, ok := R.F.info.Types[e]; ok && tv.Type != nil {
		if bt, ok := tv.Type.Underlying().(*types.Basic); ok && bt.Info()&types.IsBoolean != 0 {
			return true
		}
	}
	return false
}

func (R *igRun) transfer(b *cfg.Block) []*igState {
	s := R.in[b]
	outs := make([]*igState, len(b.Succs))
	if b.Kind == cfg.KindRangeLoop && len(b.Nodes) == 0 && len(b.Succs) == 2 {
		if rs, ok := b.Stmt.(*ast.RangeStmt); ok {
			outs[0], outs[1] = R.rangeHead(rs, s), s
			return outs
		}
	}
	for i, n := range b.Nodes {
		last := i == len(b.Nodes)-1
		if e, ok := n.(ast.Expr); ok {
			if last && len(b.Succs) == 2 {
				if tag, isCase := R.tagOf[e]; isCase {
					R.scan(e, s)
					if s != nil {
						outs[0], outs[1] = R.refine(&ast.BinaryExpr{X: tag, Op: token.EQL, Y: e, OpPos: e.Pos()}, s)
					}
					return outs
				}
				if R.isBool(e) {
					outs[0], outs[1] = R.cond(e, s)
					return outs
				}
			}
			R.scan(e, s)
			if s != nil {
				s = R.effect(&ast.ExprStmt{X: e}, s)
			}
			continue
		}
		R.scan(n, s)
		if s != nil {
			s = R.effect(n, s)
		}
	}
	for i := range outs {
		outs[i] = s
	}
	return outs
}

// run computes the fixpoint and then makes one recording pass; false: no fixpoint.
func (R *igRun) run(entry *igState) bool {
	blocks := R.G.Blocks
	R.in = map[*cfg.Block]*igState{}
	if len(blocks) == 0 || entry == nil {
		return true
	}
	R.in[blocks[0]] = entry
	// widening points: the targets of back edges (depth-first search from the entry)
	heads := map[*cfg.Block]bool{}
	back := map[[2]*cfg.Block]bool{}
	{
		state := map[*cfg.Block]int{} // 1 = on the stack, 2 = done
		var dfs func(b *cfg.Block)
		dfs = func(b *cfg.Block) {
			state[b] = 1
			for _, sc := range b.Succs {
				switch state[sc] {
				case 0:
					dfs(sc)
				case 1:
					heads[sc] = true
					back[[2]*cfg.Block{b, sc}] = true
				}
			}
			state[b] = 2
		}
		dfs(blocks[0])
	}
	visits := map[*cfg.Block]int{}
	stable := false
	for iter := 0; iter < 300 && !stable; iter++ {
		R.iters++
		stable = true
		for _, b := range blocks {
			if R.in[b] == nil {
				continue
			}
			outs := R.transfer(b)
			for i, sc := range b.Succs {
				if outs[i] == nil {
					continue
				}
				var nw *igState
				if R.in[sc] == nil {
					nw = outs[i]
				} else {
					// widening only counts what comes round the loop: a change that arrives over a
					// forward edge (an earlier loop still settling) restarts the count
					isBack := back[[2]*cfg.Block{b, sc}]
					widen := heads[sc] && isBack && visits[sc] > 5
					nw = igJoin(R.in[sc], outs[i], widen)
					if widen {
						for v := 1; v < len(R.F.nodes); v++ {
							// (no field invariant here: a field this function has stored to may exceed the
							// invariant that is still being computed)
							R.F.permanentInv(nw.a, v, 0, false)
							R.F.permanentInv(nw.g, v, 1, false)
						}
						// closing a widened matrix can re-derive a bound that widening just removed; that
						// is wanted (lo <= hi <= 255 keeps lo <= 255) but must not go on for ever
						if visits[sc] <= 12 {
							nw.a.close()
							nw.g.close()
						}
					}
					if igStateEqual(nw, R.in[sc]) {
						continue
					}
					if heads[sc] && !isBack {
						visits[sc] = -1
					}
				}
				visits[sc]++
				if igSweepDebug && iter > 280 {
					fmt.Printf("sweep %d: block %d -> %d changes (visits %d)\n    old A: %s\n    new A: %s\n    old G: %s\n    new G: %s\n", iter, b.Index, sc.Index, visits[sc], R.F.showMatOf(R.in[sc], true), R.F.showMatOf(nw, true), R.F.showMatOf(R.in[sc], false), R.F.showMatOf(nw, false))
				}
				R.in[sc] = nw
				stable = false
			}
		}
	}
	if !stable {
		return false
	}
	if t := os.Getenv("WV_X_TRACE"); t != "" && strings.Contains(R.F.name, t) {
		fmt.Printf("TRACE %s (%d sweeps)\n", R.F.name, R.iters)
		for _, b := range blocks {
			if st := R.in[b]; st != nil {
				fmt.Printf("  block %d %s succs=%d\n    A: %s\n    G: %s\n", b.Index, b.Kind, len(b.Succs), R.F.showMat(st.a), R.F.showMat(st.g))
			} else {
				fmt.Printf("  block %d %s unreached\n", b.Index, b.Kind)
			}
		}
	}
	R.rec = true
	for _, b := range blocks {
		if R.in[b] != nil {
			R.transfer(b)
		}
	}
	R.rec = false
	return true
}
