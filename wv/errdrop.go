package main

// Rule family ED (error discipline of the toolchain): in the compiler's own
// packages no call that returns an `error` has that result discarded — as an
// expression statement, behind go/defer, or assigned to the blank identifier.
// In lang/check an error is how a proof obligation says "cannot prove": a
// dropped error accepts the program (C01); in lang/parse, lang/token,
// lang/render and internal/cgen it turns a diagnosed malformed input into
// undefined behaviour further down (C11: "terminate with a result or an
// ordinary error value"). The accepted exceptions are a frozen table keyed by
// (function, callee), each with its reason.

import (
	"fmt"
	"go/ast"
	"go/types"
	"sort"
	"strings"

	"wv/core"
)

type edException struct{ fn, callee, why string }

var edFrozen = []edException{
	{"internal/cgen.(*buffer).printf", "fmt.Fprintf", "writes to the in-memory buffer type, whose Write never fails"},
	{"lang/builtin.ParseFuncs", "(*github.com/google/wuffs/lang/ast.Raw).SetPackage", "SetPackage on a freshly parsed built-in declaration: the only error is a node kind that cannot carry a package, and ParseFuncs only passes KFunc nodes"},
	{"lang/check.(*Checker).checkStructDecl", "(*github.com/google/wuffs/lang/ast.Raw).SetPackage", "SetPackage on the synthetic `reset` method it has just built with a.NewFunc: the only error is a qualified name that already has a different package, which a fresh node with an empty argument struct cannot contain"},
	{"lang/check.(*checker).bcheckStatement", "(*github.com/google/wuffs/lang/check.facts).dropAnyFactsMentioning", "dropAnyFactsMentioning only returns the error of its filter closure, which never fails (it returns nil, nil or x, nil)"},
}

// runErrDrop evaluates ED over the given package directories (relative to the module).
func runErrDrop(k *gctx, rels ...string) {
	c := k.c
	errT := types.Universe.Lookup("error").Type()
	isErr := func(t types.Type) bool { return t != nil && types.Identical(t, errT) }
	used := map[int]bool{}
	nCalls := 0
	for _, rel := range rels {
		p := k.g.Pkg(rel)
		if p == nil {
			c.Undecided("ED.drop", rel, "package is loaded", "package not loaded")
			continue
		}
		for _, f := range k.g.AllFuncs(p) {
			info := f.Info()
			errIx := func(call *ast.CallExpr) int {
				tv, ok := info.Types[call]
				if !ok || tv.Type == nil {
					return -1
				}
				if tup, ok := tv.Type.(*types.Tuple); ok {
					for i := 0; i < tup.Len(); i++ {
						if isErr(tup.At(i).Type()) {
							return i
						}
					}
					return -1
				}
				if isErr(tv.Type) {
					return 0
				}
				return -1
			}
			calleeName := func(call *ast.CallExpr) string {
				if fn := core.Callee(info, call); fn != nil {
					return fn.FullName()
				}
				return core.Src(k.g.Fset, call.Fun)
			}
			var dropped []string
			report := func(call *ast.CallExpr, how string, at ast.Node) {
				name := calleeName(call)
				for i, ex := range edFrozen {
					if ex.fn == f.Name() && ex.callee == name {
						used[i] = true
						return
					}
				}
				dropped = append(dropped, fmt.Sprintf("%s: `%s` %s (callee %s)", k.g.Pos(at.Pos()), core.Src(k.g.Fset, at), how, name))
			}
			sites := 0
			ast.Inspect(f.Decl.Body, func(n ast.Node) bool {
				switch st := n.(type) {
				case *ast.ExprStmt:
					if call, ok := st.X.(*ast.CallExpr); ok && errIx(call) >= 0 {
						sites++
						report(call, "discards its error result", st)
					}
				case *ast.GoStmt:
					if errIx(st.Call) >= 0 {
						sites++
						report(st.Call, "discards its error result (go)", st)
					}
				case *ast.DeferStmt:
					if errIx(st.Call) >= 0 {
						sites++
						report(st.Call, "discards its error result (defer)", st)
					}
				case *ast.AssignStmt:
					if len(st.Rhs) == 1 {
						if call, ok := ast.Unparen(st.Rhs[0]).(*ast.CallExpr); ok {
							if ix := errIx(call); ix >= 0 {
								sites++
								var l ast.Expr
								if len(st.Lhs) == 1 {
									l = st.Lhs[0]
								} else if ix < len(st.Lhs) {
									l = st.Lhs[ix]
								}
								if id, ok := l.(*ast.Ident); ok && id.Name == "_" {
									report(call, "assigns its error result to _", st)
								}
							}
						}
					}
				case *ast.ReturnStmt:
					for _, r := range st.Results {
						if call, ok := ast.Unparen(r).(*ast.CallExpr); ok && errIx(call) >= 0 {
							sites++
						}
					}
				}
				return true
			})
			nCalls += sites
			if len(dropped) > 0 {
				sort.Strings(dropped)
				c.Fail("ED.drop", f.Name(), "no call that returns an error has that result discarded (expression statement, go/defer, or assignment to _): in the checker a dropped error accepts an unproven program, elsewhere it lets a diagnosed malformed input flow on", sites, strings.Join(dropped, "\n"))
			} else if sites > 0 {
				c.Pass("ED.drop", f.Name(), "no call that returns an error has that result discarded (expression statement, go/defer, or assignment to _)", sites, k.g.Pos(f.Decl.Pos()))
			}
		}
	}
	c.Analysed("ed_error_returning_calls", nCalls)
}

// edStale reports frozen exceptions that matched nothing (only meaningful when
// every package of the table was analysed by this property).
func edFloor(c *core.Ctx, nCalls, floor int) {
	c.Floor("ED", "error-returning calls examined", nCalls, floor)
}
