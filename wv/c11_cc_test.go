package main

import (
	"os"
	"path/filepath"
	"testing"
)

// TestCCDump writes the generated part of the construct corpus to $CC_DUMP
// (one <name>.wuffs per program) so that it can be read or fed to wuffs-c by
// hand: CC_DUMP=/tmp/ccdump go test -run TestCCDump .
func TestCCDump(t *testing.T) {
	dir := os.Getenv("CC_DUMP")
	if dir == "" {
		t.Skip("CC_DUMP not set")
	}
	if err := os.MkdirAll(dir, 0o755); err != nil {
		t.Fatal(err)
	}
	progs, _ := ccGenerated()
	for _, p := range progs {
		if err := os.WriteFile(filepath.Join(dir, p.Name+".wuffs"), []byte(p.Src), 0o644); err != nil {
			t.Fatal(err)
		}
	}
}
