package main

import (
	"fmt"
	"math/big"

	"wv/core"

	a "github.com/google/wuffs/lang/ast"
)

func init() {
	register("C07", core.Spec{
		Decides:    "the checksum/hash half of C07 only. (1) H.table: the constant tables that the Wuffs CRC-32, CRC-64 and SHA-256 implementations and the bzip2 decoder are built on equal their mathematical definitions — IEEE_TABLE[k][i] is the slice-by-16 table of the reflected polynomial 0xEDB88320, ECMA_TABLE[k][i] the slice-by-8 table of 0xC96C5795D7870F42, SHA-256's K[i] the first 32 fractional bits of the cube roots of the first 64 primes, INITIAL_SHA256_H the first 32 fractional bits of the square roots of the first 8 primes, bzip2's REV_CRC32_TABLE the MSB-first table of 0x04C11DB7 (6472 entries, each recomputed by the checker from the definition and compared with the literal read through the Wuffs front end). (2) H.compare / H.reset / H.update / H.mark / H.ignore.*: checksum *verification* inside the gzip, zlib, lzip, xz, png and bzip2 decoders, as a path-sensitive typestate analysis of the Wuffs ASTs of the functions listed in the table hRows (wv/c07_hash.go), under the standing assumption ignore_checksum == false: data fed to a hasher cannot reach a successful completion (or a reset) without the hasher's value having been compared with a value read from the stream, a mismatch returning \"#bad checksum\"; a trailer value read into the comparison's want-variable while data is hashed is compared on every path; every 64-bit word of a multi-word digest is compared; after a verified unit the hasher is reset before the next unit's first update (xz blocks, lzip members, png chunks, bzip2 blocks); every call that is handed the hashed stream is followed, before the next suspension / re-mark / comparison, by an update with exactly IO.since(mark: M), M = IO.mark() taken after the last suspension and update; the ignore flag is written only by set_quirk! under args.key == QUIRK_IGNORE_CHECKSUM with `args.value > 0`, is read only in if-conditions, code that runs only while it is false never advances a stream, and xz's ignoring branch skips exactly the CHECKSUM_LENGTH bytes the verifying branches read. (3) H.step.write / H.step.copy: in bzip2's flush_fast and flush_slow every byte written to the output went through the MSB-first CRC table step `L = T[((L >> 24) as u8) ^ V] ^ (L ~mod<< 8)` with the same byte expression, and the local accumulator is loaded from / stored back to the receiver field around the steps on every path",
		NotDecided: "everything else in C07: that any decoder reproduces what a reference encoder compressed (value level; seeded C07-1 is of this kind); that the hashers *use* their tables correctly; independence of the result from how the bytes are split across update calls; the SIMD folding constants of crc64; Adler-32's arithmetic (it has no table); in bzip2's flush functions, that no CRC step happens without a write and the arithmetic of the step beyond its shape; png: the hand-over of the first IDAT chunk's CRC from do_decode_frame to decode_pass (inter-procedural), ancillary-chunk and fdAT/fcTL CRCs (skipped by design), the literal IEND CRC; whether the *right* bytes are between mark and update when a decoder rewrites its output in place (xz BCJ filters); anything when ignore_checksum is true",
		Assumptions: []string{"the Wuffs front end (lang/token, parse, check) computes ConstValue of literal list elements faithfully and annotates expression types (MType) correctly",
			"the definitions of CRC-32/IEEE (reflected 0xEDB88320), CRC-32/BZIP2 (0x04C11DB7 MSB first), CRC-64/ECMA-182 (reflected 0xC96C5795D7870F42) and FIPS 180-4 SHA-256 constants as implemented in this checker",
			"typestate model: the hasher objects of std/crc32, crc64, sha256, adler32 start in their reset state; a receiver field keeps its value across a suspension of the coroutine (no other method of the decoder runs while it is suspended); a method call may write exactly the receiver fields it or its callees (choose-dispatched implementations included) assign",
			"the per-row entry states and assumptions of hRows (one line of reason each) describe how the function is entered"},
		Exhaustive: true,
	}, runC07)
}

// flattenConst returns the leaf constant values of a (nested) list expression, row by row.
func flattenConst(e *a.Expr) ([][]*big.Int, bool) {
	args, ok := e.IsList()
	if !ok {
		return nil, false
	}
	if len(args) > 0 {
		if _, nested := args[0].AsExpr().IsList(); nested {
			var out [][]*big.Int
			for _, r := range args {
				rows, ok := flattenConst(r.AsExpr())
				if !ok || len(rows) != 1 {
					return nil, false
				}
				out = append(out, rows[0])
			}
			return out, true
		}
	}
	var row []*big.Int
	for _, x := range args {
		cv := x.AsExpr().ConstValue()
		if cv == nil {
			return nil, false
		}
		row = append(row, cv)
	}
	return [][]*big.Int{row}, true
}

func firstPrimes(n int) []int64 {
	var out []int64
	for c := int64(2); len(out) < n; c++ {
		p := true
		for d := int64(2); d*d <= c; d++ {
			if c%d == 0 {
				p = false
				break
			}
		}
		if p {
			out = append(out, c)
		}
	}
	return out
}

// fracRoot returns floor(frac(p^(1/k)) * 2^32) for k = 2 or 3.
func fracRoot(p int64, k int) uint32 {
	// r = floor(p^(1/k) * 2^32) = floor( (p * 2^(32k))^(1/k) )
	n := new(big.Int).Lsh(big.NewInt(p), uint(32*k))
	lo, hi := big.NewInt(0), new(big.Int).Lsh(big.NewInt(1), 40)
	for new(big.Int).Sub(hi, lo).Cmp(big.NewInt(1)) > 0 {
		mid := new(big.Int).Rsh(new(big.Int).Add(lo, hi), 1)
		pw := new(big.Int).Exp(mid, big.NewInt(int64(k)), nil)
		if pw.Cmp(n) <= 0 {
			lo = mid
		} else {
			hi = mid
		}
	}
	return uint32(new(big.Int).And(lo, big.NewInt(0xFFFFFFFF)).Uint64())
}

func runC07(c *core.Ctx) {
	cb := c.BuildC() // only for the generated `use` stubs the front end needs; no C is inspected here
	if cb == nil {
		return
	}
	std := loadStd(c, cb)
	load := func(name string) *WPkg {
		for _, p := range std {
			if p.Name == name {
				return p
			}
		}
		c.Infra("tier W: std/%s not found in the scratch build", name)
		return nil
	}
	findConst := func(p *WPkg, name string) *a.Const {
		for _, k := range p.Consts {
			if p.str(k.QID()[1]) == name {
				return k
			}
		}
		return nil
	}
	if ad := load("adler32"); ad != nil {
		runC07Adler(c, ad)
	}
	total := 0
	checkTable := func(p *WPkg, name string, rows, cols int, want func(k, i int) *big.Int, what string) {
		anchor := "std/" + p.Name + " const " + name
		k := findConst(p, name)
		if k == nil {
			c.Undecided("H.table", anchor, "the constant table exists", "not found in std/"+p.Name)
			return
		}
		vals, ok := flattenConst(k.Value())
		if !ok || len(vals) != rows {
			c.Undecided("H.table", anchor, "the table is a literal list of constants with the expected shape", fmt.Sprintf("shape not %dx%d", rows, cols))
			return
		}
		var bad []string
		n := 0
		for r := 0; r < rows; r++ {
			if len(vals[r]) != cols {
				bad = append(bad, fmt.Sprintf("row %d has %d entries, want %d", r, len(vals[r]), cols))
				continue
			}
			for i := 0; i < cols; i++ {
				n++
				if w := want(r, i); vals[r][i].Cmp(w) != 0 && len(bad) < 5 {
					bad = append(bad, fmt.Sprintf("%s:%d: %s[%d][%d] = 0x%X, the definition gives 0x%X", k.Filename(), k.Line(), name, r, i, vals[r][i], w))
				}
			}
		}
		total += n
		detail := ""
		for _, b := range bad {
			detail += b + "\n"
		}
		c.Check(len(bad) == 0, "H.table", anchor, what, n, detail)
	}
	// CRC-32 IEEE, slice-by-16.
	{
		var t0 [256]uint32
		for i := 0; i < 256; i++ {
			x := uint32(i)
			for j := 0; j < 8; j++ {
				if x&1 != 0 {
					x = (x >> 1) ^ 0xEDB88320
				} else {
					x >>= 1
				}
			}
			t0[i] = x
		}
		tab := [][256]uint32{t0}
		for k := 1; k < 16; k++ {
			var tk [256]uint32
			for i := 0; i < 256; i++ {
				prev := tab[k-1][i]
				tk[i] = (prev >> 8) ^ t0[prev&0xFF]
			}
			tab = append(tab, tk)
		}
		checkTable(load("crc32"), "IEEE_TABLE", 16, 256, func(k, i int) *big.Int { return new(big.Int).SetUint64(uint64(tab[k][i])) },
			"IEEE_TABLE is the slice-by-16 table of CRC-32 (reflected polynomial 0xEDB88320): T[0][i] by 8 shift/xor steps, T[k][i] = (T[k-1][i] >> 8) ^ T[0][T[k-1][i] & 0xFF]")
	}
	// CRC-64 ECMA, slice-by-8.
	{
		var t0 [256]uint64
		for i := 0; i < 256; i++ {
			x := uint64(i)
			for j := 0; j < 8; j++ {
				if x&1 != 0 {
					x = (x >> 1) ^ 0xC96C5795D7870F42
				} else {
					x >>= 1
				}
			}
			t0[i] = x
		}
		tab := [][256]uint64{t0}
		for k := 1; k < 8; k++ {
			var tk [256]uint64
			for i := 0; i < 256; i++ {
				prev := tab[k-1][i]
				tk[i] = (prev >> 8) ^ t0[prev&0xFF]
			}
			tab = append(tab, tk)
		}
		checkTable(load("crc64"), "ECMA_TABLE", 8, 256, func(k, i int) *big.Int { return new(big.Int).SetUint64(tab[k][i]) },
			"ECMA_TABLE is the slice-by-8 table of CRC-64/ECMA-182 (reflected polynomial 0xC96C5795D7870F42)")
	}
	// SHA-256.
	{
		pr := firstPrimes(64)
		sha := load("sha256")
		checkTable(sha, "K", 1, 64, func(_, i int) *big.Int { return new(big.Int).SetUint64(uint64(fracRoot(pr[i], 3))) },
			"SHA-256 K[i] = first 32 bits of the fractional part of the cube root of the i-th prime (FIPS 180-4 §4.2.2)")
		checkTable(sha, "INITIAL_SHA256_H", 1, 8, func(_, i int) *big.Int { return new(big.Int).SetUint64(uint64(fracRoot(pr[i], 2))) },
			"SHA-256 H0[i] = first 32 bits of the fractional part of the square root of the i-th prime (FIPS 180-4 §5.3.3)")
	}
	// CRC-32 as used by bzip2: MSB first, polynomial 0x04C11DB7.
	{
		var tab [256]uint32
		for i := 0; i < 256; i++ {
			x := uint32(i) << 24
			for j := 0; j < 8; j++ {
				if x&0x80000000 != 0 {
					x = (x << 1) ^ 0x04C11DB7
				} else {
					x <<= 1
				}
			}
			tab[i] = x
		}
		checkTable(load("bzip2"), "REV_CRC32_TABLE", 1, 256, func(_, i int) *big.Int { return new(big.Int).SetUint64(uint64(tab[i])) },
			"REV_CRC32_TABLE is the byte table of CRC-32 computed MSB first (polynomial 0x04C11DB7), as bzip2 block and stream checksums use it")
	}
	c.Floor("H", "table entries recomputed from their definitions", total, 16*256+8*256+64+8+256)

	// Checksum verification inside the decoders (rule family H over the Wuffs ASTs).
	runHashRules(c, std)
}
