package main

import (
	"go/ast"
	"go/parser"
	"go/token"
)

// parserParseFile parses a Go source text (used by positive controls).
func parserParseFile(fset *token.FileSet, src string) (*ast.File, error) {
	return parser.ParseFile(fset, "control.go", src, 0)
}
