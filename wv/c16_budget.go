package main

// C16, rule L.budget: a block handler of the cutter (a method of cutter that
// returns one error) answers nil for "this block was consumed whole; carry
// on" — and when that block was the final one, cut() returns c.bits.index as
// the encoded length. Calls that consume input bits (any call that is handed
// the bitstream: c.bits.take, c.lHuff.decode(&c.bits), …) advance the index by
// a data-dependent amount, so on every path from such a call to a `return nil`
// the handler must have compared the position with the budget afterwards: a
// branch whose condition orders a position value against c.maxEncodedLen (or
// a local computed from it), taken in the direction "fits".
//
// The rule exposed a defect in the tree as found: doHuffman's end-of-block
// branch returned nil without that comparison, so an empty Huffman block whose
// header fits the limit but whose end-of-block code does not made Cut return
// encodedLen == maxEncodedLen+1 with a nil error (repaired; known-findings).
//
// doStored reserves before it advances: it assigns the index directly,
// `c.bits.index = index + int(length)`. Rule L.budget.stored: every such plain
// store is reached only after the data-dependent part of the new value (a
// local the right-hand side mentions, here `length`) was either compared with
// a budget-derived value and found to fit, or itself assigned from a
// budget-derived value (the shortened block: `length = uint32(remaining)`).
// The arithmetic of `remaining` itself is not decided.

import (
	"fmt"
	"go/ast"
	"go/token"
	"go/types"
	"strings"

	"wv/core"
)

func runC16Budget(k *gctx) {
	c, g := k.c, k.g
	cutterObj := k.obj("L.budget", c16RelFlate, "cutter")
	bitstreamObj := k.obj("L.budget", c16RelFlate, "bitstream")
	if cutterObj == nil || bitstreamObj == nil {
		return
	}
	fMax := core.LookupField(cutterObj, "maxEncodedLen")
	if fMax == nil {
		c.Undecided("L.budget", c16RelFlate+".cutter", "field cutter.maxEncodedLen exists", "field not found")
		return
	}
	isBitstream := func(t types.Type) bool {
		if p, ok := t.Underlying().(*types.Pointer); ok {
			t = p.Elem()
		}
		n, ok := types.Unalias(t).(*types.Named)
		return ok && n.Obj() == bitstreamObj
	}
	nHandlers, nReturns, nCalls := 0, 0, 0
	for _, f := range g.AllFuncs(g.Pkg(c16RelFlate)) {
		if f.Obj == nil || f.Decl.Body == nil {
			continue
		}
		sig := f.Obj.Type().(*types.Signature)
		if sig.Recv() == nil || sig.Results().Len() != 1 || !c15IsError(sig.Results().At(0).Type()) {
			continue
		}
		rt := sig.Recv().Type()
		if p, ok := rt.Underlying().(*types.Pointer); ok {
			rt = p.Elem()
		}
		if n, ok := types.Unalias(rt).(*types.Named); !ok || n.Obj() != cutterObj {
			continue
		}
		info := f.Info()
		fl := core.NewFlow(f)
		// bit-consuming calls
		consumes := func(call *ast.CallExpr) bool {
			if sel, ok := ast.Unparen(call.Fun).(*ast.SelectorExpr); ok {
				if tv, ok := info.Types[sel.X]; ok && isBitstream(tv.Type) {
					if _, isFn := info.Uses[sel.Sel].(*types.Func); isFn {
						return true
					}
				}
			}
			for _, a := range call.Args {
				if tv, ok := info.Types[a]; ok && isBitstream(tv.Type) {
					return true
				}
			}
			return false
		}
		var nilReturns []*ast.ReturnStmt
		calls := 0
		ast.Inspect(f.Decl.Body, func(n ast.Node) bool {
			switch x := n.(type) {
			case *ast.FuncLit:
				return false
			case *ast.ReturnStmt:
				if len(x.Results) == 1 && core.IsNilIdent(info, x.Results[0]) {
					nilReturns = append(nilReturns, x)
				}
			case *ast.CallExpr:
				if consumes(x) {
					calls++
				}
			}
			return true
		})
		if len(nilReturns) == 0 || calls == 0 {
			continue
		}
		nHandlers++
		nCalls += calls
		// budget-derived: mentions c.maxEncodedLen, or a local every definition of
		// which mentions it (two levels are enough for `maxEncodedBits`)
		var budget func(e ast.Expr, depth int) bool
		budget = func(e ast.Expr, depth int) bool {
			found := false
			ast.Inspect(e, func(n ast.Node) bool {
				if found {
					return false
				}
				switch x := n.(type) {
				case *ast.SelectorExpr:
					if core.FieldOf(info, x, fMax) {
						found = true
					}
				case *ast.Ident:
					if depth > 0 {
						if v, ok := info.Uses[x].(*types.Var); ok && !v.IsField() && v.Parent() != nil && v.Pkg() == f.Obj.Pkg() && v.Parent() != v.Pkg().Scope() {
							defs := c15Defs(fl, v)
							all := len(defs) > 0
							for _, d := range defs {
								if d.Rhs == nil || !budget(d.Rhs, depth-1) {
									all = false
								}
							}
							if all {
								found = true
							}
						}
					}
				}
				return !found
			})
			return found
		}
		// fits: on this edge an ordering comparison places the other side at or
		// below the budget side.
		fitsAtom := func(a ast.Expr, taken bool) bool {
			l, r, op, ok := c15Cmp(a)
			if !ok || op == token.EQL || op == token.NEQ {
				return false
			}
			lb, rb := budget(l, 2), budget(r, 2)
			if lb == rb {
				return false
			}
			// normalise to: other OP budget
			if lb {
				switch op {
				case token.LSS:
					op = token.GTR
				case token.LEQ:
					op = token.GEQ
				case token.GTR:
					op = token.LSS
				case token.GEQ:
					op = token.LEQ
				}
			}
			switch op {
			case token.GTR, token.GEQ: // other > budget: fits when false
				return !taken
			case token.LSS, token.LEQ:
				return taken
			}
			return false
		}
		guard := core.Event{Edge: func(cond ast.Expr, ci *core.CondInfo, taken bool) bool {
			if ci != nil && ci.Kind == "tagswitch" {
				return false
			}
			if inner, neg := boolCond(cond); neg {
				cond, taken = inner, !taken
			}
			if taken {
				for _, a := range flattenAnd(cond) {
					if fitsAtom(a, true) {
						return true
					}
				}
				return false
			}
			for _, a := range flattenOr(cond) {
				if fitsAtom(a, false) {
					return true
				}
			}
			return false
		}}
		for _, r := range nilReturns {
			nReturns++
			ret := r
			esc, visited := fl.Escapes(core.Query{
				Start:  func(n ast.Node) bool { return !c15IsCompound(n) && core.Guaranteed(n, consumes) },
				Exit:   func(n ast.Node) bool { return n == ast.Node(ret) },
				Events: []core.Event{guard},
			})
			anchor := fmt.Sprintf("%s[return nil #%d]", f.Name(), nReturns)
			claim := "between the last call that consumes input bits and this `return nil` (block consumed; its end may become the encoded length) the position is compared with maxEncodedLen and found to fit"
			if len(esc) > 0 {
				var lines []string
				for _, e := range esc {
					lines = append(lines, g.Pos(ret.Pos())+": "+e.String())
				}
				c.Fail("L.budget", anchor, claim, visited+1, strings.Join(lines, "\n"))
			} else {
				c.Pass("L.budget", anchor, claim, visited+1, g.Pos(ret.Pos()))
			}
		}
	}
	runC16BudgetStored(k, cutterObj, bitstreamObj, fMax)
	c.Floor("L.budget", "cutter block handlers that consume bits through calls and return nil (doHuffman)", nHandlers, 1)
	c.Floor("L.budget.calls", "bit-consuming calls in those handlers (decode x2, take x2 in doHuffman)", nCalls, 4)
}

func runC16BudgetStored(k *gctx, cutterObj, bitstreamObj types.Object, fMax *types.Var) {
	c, g := k.c, k.g
	fIndex := core.LookupField(bitstreamObj, "index")
	if fIndex == nil {
		c.Undecided("L.budget.stored", c16RelFlate+".bitstream", "field bitstream.index exists", "field not found")
		return
	}
	nStores := 0
	for _, f := range g.AllFuncs(g.Pkg(c16RelFlate)) {
		if f.Obj == nil || f.Decl.Body == nil {
			continue
		}
		sig := f.Obj.Type().(*types.Signature)
		if sig.Recv() == nil {
			continue
		}
		rt := sig.Recv().Type()
		if p, ok := rt.Underlying().(*types.Pointer); ok {
			rt = p.Elem()
		}
		if n, ok := types.Unalias(rt).(*types.Named); !ok || n.Obj() != cutterObj {
			continue
		}
		info := f.Info()
		var stores []*ast.AssignStmt
		ast.Inspect(f.Decl.Body, func(n ast.Node) bool {
			if as, ok := n.(*ast.AssignStmt); ok && as.Tok == token.ASSIGN && len(as.Lhs) == 1 && len(as.Rhs) == 1 && core.FieldOf(info, as.Lhs[0], fIndex) {
				stores = append(stores, as)
			}
			return true
		})
		if len(stores) == 0 {
			continue
		}
		fl := core.NewFlow(f)
		var budget func(e ast.Expr, depth int) bool
		budget = func(e ast.Expr, depth int) bool {
			found := false
			ast.Inspect(e, func(n ast.Node) bool {
				if found {
					return false
				}
				switch x := n.(type) {
				case *ast.SelectorExpr:
					if core.FieldOf(info, x, fMax) {
						found = true
					}
				case *ast.Ident:
					if depth > 0 {
						if v := c15LocalVar(fl, x); v != nil {
							defs := c15Defs(fl, v)
							all := len(defs) > 0
							for _, d := range defs {
								if d.Rhs == nil || !budget(d.Rhs, depth-1) {
									all = false
								}
							}
							found = all
						}
					}
				}
				return !found
			})
			return found
		}
		for _, st := range stores {
			// An advance is a sum (`index + int(length)`); a bare identifier on the
			// right restores a position visited before (checkpoint, block start).
			if be, ok := ast.Unparen(st.Rhs[0]).(*ast.BinaryExpr); !ok || be.Op != token.ADD {
				continue
			}
			// data-dependent locals of the new value: mentioned by the right-hand
			// side, not themselves budget-derived, not constants
			var data []*types.Var
			ast.Inspect(st.Rhs[0], func(n ast.Node) bool {
				if id, ok := n.(*ast.Ident); ok {
					if v := c15LocalVar(fl, id); v != nil && !budget(id, 2) {
						data = append(data, v)
					}
				}
				return true
			})
			if len(data) == 0 {
				continue // re-alignment or checkpoint restore: no data-dependent advance
			}
			nStores++
			mentionsData := func(e ast.Expr) bool {
				hit := false
				ast.Inspect(e, func(n ast.Node) bool {
					if id, ok := n.(*ast.Ident); ok {
						v := c15LocalVar(fl, id)
						for _, d := range data {
							if v == d {
								hit = true
							}
						}
					}
					return !hit
				})
				return hit
			}
			fits := func(a ast.Expr, taken bool) bool {
				l, r, op, ok := c15Cmp(a)
				if !ok || op == token.EQL || op == token.NEQ {
					return false
				}
				lb, rb := budget(l, 2), budget(r, 2)
				if lb == rb {
					return false
				}
				other := l
				if lb {
					other = r
					switch op {
					case token.LSS:
						op = token.GTR
					case token.LEQ:
						op = token.GEQ
					case token.GTR:
						op = token.LSS
					case token.GEQ:
						op = token.LEQ
					}
				}
				if !mentionsData(other) {
					return false
				}
				if op == token.GTR || op == token.GEQ {
					return !taken
				}
				return taken
			}
			target := st
			esc, visited := fl.Escapes(core.Query{
				Exit: func(n ast.Node) bool { return n == ast.Node(target) },
				Events: []core.Event{
					{Edge: func(cond ast.Expr, ci *core.CondInfo, taken bool) bool {
						if ci != nil && ci.Kind == "tagswitch" {
							return false
						}
						if inner, neg := boolCond(cond); neg {
							cond, taken = inner, !taken
						}
						if taken {
							for _, a := range flattenAnd(cond) {
								if fits(a, true) {
									return true
								}
							}
							return false
						}
						for _, a := range flattenOr(cond) {
							if fits(a, false) {
								return true
							}
						}
						return false
					}},
					{Node: func(n ast.Node) bool {
						as, ok := n.(*ast.AssignStmt)
						if !ok || len(as.Lhs) != len(as.Rhs) || (as.Tok != token.ASSIGN && as.Tok != token.DEFINE) {
							return false
						}
						for i, l := range as.Lhs {
							v := c15LocalVar(fl, l)
							for _, d := range data {
								if v == d && budget(as.Rhs[i], 2) {
									return true
								}
							}
						}
						return false
					}},
				},
			})
			var names []string
			for _, d := range data {
				names = append(names, d.Name())
			}
			anchor := fmt.Sprintf("%s[store #%d: %s]", f.Name(), nStores, core.Src(g.Fset, st))
			claim := "a plain store that advances the bit reader's index by a data-dependent amount (" + strings.Join(names, ", ") + ") is reached only after that amount was compared with a maxEncodedLen-derived value and fits, or was itself assigned from one"
			if len(esc) > 0 {
				c.Fail("L.budget.stored", anchor, claim, visited+1, g.Pos(st.Pos())+": "+esc[0].String())
			} else {
				c.Pass("L.budget.stored", anchor, claim, visited+1, g.Pos(st.Pos()))
			}
		}
	}
	c.Floor("L.budget.stored", "data-dependent plain stores to bitstream.index in cutter methods (two in doStored)", nStores, 2)
}
