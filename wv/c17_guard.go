package main

// G: decoder totality guards. Forward dataflow over go/cfg computing, for
// every byte-slice variable (local / parameter, or a one-level field path such
// as rDec.src), a lower bound on its length implied by the len() comparisons
// passed so far, with `v = v[K:]` re-slices subtracting K. Every index or
// slice of such a variable with CONSTANT offsets must be within that bound.
// Variable offsets are listed (INFO) and not claimed.

import (
	"fmt"
	"go/ast"
	"go/token"
	"go/types"
	"sort"
	"strings"

	"golang.org/x/tools/go/cfg"

	"wv/core"
)

type lenVar struct {
	base  types.Object
	field *types.Var
}

type lenState map[lenVar]int64 // missing = 0 (no knowledge)

func (s lenState) clone() lenState {
	o := lenState{}
	for k, v := range s {
		o[k] = v
	}
	return o
}

// meet: pointwise minimum; a nil state is "unreached" (top).
func meetLen(a, b lenState) lenState {
	if a == nil {
		return b.clone()
	}
	o := lenState{}
	for k, v := range a {
		if w, ok := b[k]; ok {
			if w < v {
				v = w
			}
			if v > 0 {
				o[k] = v
			}
		}
	}
	return o
}

func sameLen(a, b lenState) bool {
	if (a == nil) != (b == nil) || len(a) != len(b) {
		return false
	}
	for k, v := range a {
		if b[k] != v {
			return false
		}
	}
	return true
}

type gSite struct {
	pos   token.Pos
	text  string
	need  int64
	have  int64
	v     lenVar
	block *cfg.Block
	ok    bool
}

type guardAn struct {
	r         *c17
	fl        *core.Flow
	info      *types.Info
	untracked map[types.Object]string // address taken / captured
	rec       bool
	sites     map[token.Pos]*gSite
	variable  map[token.Pos]string
	cur       *cfg.Block
}

func isByteishSlice(t types.Type) bool {
	_, ok := t.Underlying().(*types.Slice)
	return ok
}

// lv resolves an expression to a tracked length variable.
func (a *guardAn) lv(e ast.Expr) (lenVar, bool) {
	switch v := ast.Unparen(e).(type) {
	case *ast.Ident:
		o, ok := a.info.Uses[v].(*types.Var)
		if !ok {
			o, ok = a.info.Defs[v].(*types.Var)
		}
		if !ok || o.IsField() || o.Pkg() == nil || o.Parent() == o.Pkg().Scope() || !isByteishSlice(o.Type()) {
			return lenVar{}, false
		}
		if _, bad := a.untracked[o]; bad {
			return lenVar{}, false
		}
		return lenVar{base: o}, true
	case *ast.SelectorExpr:
		f, ok := a.info.Uses[v.Sel].(*types.Var)
		if !ok || !f.IsField() || !isByteishSlice(f.Type()) {
			return lenVar{}, false
		}
		id, ok := ast.Unparen(v.X).(*ast.Ident)
		if !ok {
			return lenVar{}, false
		}
		o, ok := a.info.Uses[id].(*types.Var)
		if !ok || o.IsField() || o.Pkg() == nil || o.Parent() == o.Pkg().Scope() {
			return lenVar{}, false
		}
		if _, bad := a.untracked[o]; bad {
			return lenVar{}, false
		}
		return lenVar{base: o, field: f}, true
	}
	return lenVar{}, false
}

func (v lenVar) String() string {
	if v.field != nil {
		return v.base.Name() + "." + v.field.Name()
	}
	return v.base.Name()
}

// lenOf: e is len(V) for a tracked V.
func (a *guardAn) lenOf(e ast.Expr) (lenVar, bool) {
	call, ok := ast.Unparen(e).(*ast.CallExpr)
	if !ok || len(call.Args) != 1 {
		return lenVar{}, false
	}
	id, ok := ast.Unparen(call.Fun).(*ast.Ident)
	if !ok {
		return lenVar{}, false
	}
	if b, ok := a.info.Uses[id].(*types.Builtin); !ok || b.Name() != "len" {
		return lenVar{}, false
	}
	return a.lv(call.Args[0])
}

// refine: smallest n >= cur with (n op k) == outcome; cur when no such n nearby.
func refineLen(op token.Token, k, cur int64, outcome bool) int64 {
	hi := cur
	if k > hi {
		hi = k
	}
	for n := cur; n <= hi+2; n++ {
		if t, ok := relEval(op, n, k); ok && t == outcome {
			return n
		}
	}
	return cur
}

// walkCond evaluates a condition: accesses are checked in evaluation order with
// short-circuit refinement; returns the states for the true and false outcome.
func (a *guardAn) walkCond(e ast.Expr, st lenState) (t, f lenState) {
	e = ast.Unparen(e)
	switch v := e.(type) {
	case *ast.BinaryExpr:
		switch v.Op {
		case token.LOR:
			at, af := a.walkCond(v.X, st)
			bt, bf := a.walkCond(v.Y, af)
			return meetLen(at, bt), bf
		case token.LAND:
			at, af := a.walkCond(v.X, st)
			bt, bf := a.walkCond(v.Y, at)
			return bt, meetLen(af, bf)
		case token.LSS, token.LEQ, token.GTR, token.GEQ, token.EQL, token.NEQ:
			a.scan(v.X, st)
			a.scan(v.Y, st)
			op := v.Op
			var lvar lenVar
			var k int64
			var ok bool
			if lvar, ok = a.lenOf(v.X); ok {
				k, ok = core.ConstInt64(a.info, v.Y)
			} else if lvar, ok = a.lenOf(v.Y); ok {
				k, ok = core.ConstInt64(a.info, v.X)
				op = mirror(op)
			}
			if !ok {
				return st, st
			}
			t, f = st.clone(), st.clone()
			if n := refineLen(op, k, st[lvar], true); n > 0 {
				t[lvar] = n
			}
			if n := refineLen(op, k, st[lvar], false); n > 0 {
				f[lvar] = n
			}
			return t, f
		}
	case *ast.UnaryExpr:
		if v.Op == token.NOT {
			t, f = a.walkCond(v.X, st)
			return f, t
		}
	}
	a.scan(e, st)
	return st, st
}

// scan checks every index / slice expression inside n (not descending into
// blocks or function literals), honouring && / || sequencing.
func (a *guardAn) scan(n ast.Node, st lenState) {
	if n == nil {
		return
	}
	ast.Inspect(n, func(m ast.Node) bool {
		switch v := m.(type) {
		case *ast.BlockStmt, *ast.FuncLit:
			return false
		case *ast.BinaryExpr:
			if v.Op == token.LAND || v.Op == token.LOR {
				a.walkCond(v, st)
				return false
			}
		case *ast.IndexExpr:
			a.access(v, v.X, st)
		case *ast.SliceExpr:
			a.access(v, v.X, st)
		}
		return true
	})
}

func (a *guardAn) access(e ast.Expr, base ast.Expr, st lenState) {
	if !a.rec {
		return
	}
	tv, ok := a.info.Types[base]
	if !ok {
		return
	}
	if _, isSlice := tv.Type.Underlying().(*types.Slice); !isSlice {
		return // arrays, pointers to arrays, strings, maps: out of scope
	}
	src := core.Src(a.fl.F.Prog.Fset, e)
	v, tracked := a.lv(base)
	if !tracked {
		a.variable[e.Pos()] = src + " — base is not a trackable slice variable"
		return
	}
	need := int64(-1)
	switch x := e.(type) {
	case *ast.IndexExpr:
		k, ok := core.ConstInt64(a.info, x.Index)
		if !ok {
			a.variable[e.Pos()] = src + " — variable index"
			return
		}
		need = k + 1
	case *ast.SliceExpr:
		if x.Slice3 {
			a.variable[e.Pos()] = src + " — 3-index slice"
			return
		}
		lo, hi := int64(0), int64(-1)
		okc := true
		if x.Low != nil {
			lo, okc = core.ConstInt64(a.info, x.Low)
		}
		if okc && x.High != nil {
			hi, okc = core.ConstInt64(a.info, x.High)
		}
		if !okc {
			a.variable[e.Pos()] = src + " — variable slice bound"
			return
		}
		if x.Low == nil && x.High == nil {
			return // v[:] cannot fail
		}
		need = lo
		if hi > need {
			need = hi
		}
	}
	have := st[v]
	a.sites[e.Pos()] = &gSite{pos: e.Pos(), text: src, need: need, have: have, v: v, block: a.cur, ok: have >= need}
}

// effect applies the length effects of a statement node.
func (a *guardAn) effect(n ast.Node, st lenState) {
	kill := func(v lenVar) { delete(st, v) }
	// calls: field paths through pointers (or whose base is passed) lose their facts
	hasCall := false
	ast.Inspect(n, func(m ast.Node) bool {
		switch c := m.(type) {
		case *ast.BlockStmt, *ast.FuncLit:
			return false
		case *ast.CallExpr:
			if tv, ok := a.info.Types[c.Fun]; ok && tv.IsType() {
				return true
			}
			if id, ok := ast.Unparen(c.Fun).(*ast.Ident); ok {
				if _, ok := a.info.Uses[id].(*types.Builtin); ok {
					return true
				}
			}
			hasCall = true
		}
		return true
	})
	if hasCall {
		for v := range st {
			if v.field != nil {
				kill(v)
			}
		}
	}
	newLen := func(rhs ast.Expr) int64 {
		rhs = ast.Unparen(rhs)
		if w, ok := a.lv(rhs); ok {
			return st[w]
		}
		if se, ok := rhs.(*ast.SliceExpr); ok && !se.Slice3 {
			w, ok := a.lv(se.X)
			if !ok {
				return 0
			}
			lo := int64(0)
			okc := true
			if se.Low != nil {
				lo, okc = core.ConstInt64(a.info, se.Low)
			}
			if !okc {
				return 0
			}
			if se.High != nil {
				if hi, ok := core.ConstInt64(a.info, se.High); ok && hi >= lo {
					return hi - lo
				}
				return 0
			}
			if st[w] > lo {
				return st[w] - lo
			}
		}
		return 0
	}
	switch s := n.(type) {
	case *ast.AssignStmt:
		vals := make([]int64, len(s.Lhs))
		if len(s.Lhs) == len(s.Rhs) && (s.Tok == token.ASSIGN || s.Tok == token.DEFINE) {
			for i := range s.Lhs {
				vals[i] = newLen(s.Rhs[i])
			}
		}
		for i, l := range s.Lhs {
			if v, ok := a.lv(l); ok {
				if vals[i] > 0 {
					st[v] = vals[i]
				} else {
					kill(v)
				}
			} else if id, ok := ast.Unparen(l).(*ast.Ident); ok {
				// assigning the base object of field paths invalidates them
				if o := a.info.Uses[id]; o != nil {
					for v := range st {
						if v.base == o {
							kill(v)
						}
					}
				}
			}
		}
	case *ast.DeclStmt, *ast.RangeStmt:
		ast.Inspect(s, func(m ast.Node) bool {
			if _, ok := m.(*ast.BlockStmt); ok {
				return false
			}
			if id, ok := m.(*ast.Ident); ok {
				if o, ok := a.info.Defs[id].(*types.Var); ok {
					kill(lenVar{base: o})
				}
			}
			return true
		})
	}
}

// run computes the fixpoint and then records verdicts.
func (a *guardAn) run() (edgeOut map[*cfg.Block][]lenState) {
	blocks := a.fl.G.Blocks
	in := map[*cfg.Block]lenState{}
	edgeOut = map[*cfg.Block][]lenState{}
	if len(blocks) == 0 {
		return
	}
	in[blocks[0]] = lenState{}
	transfer := func(b *cfg.Block) []lenState {
		a.cur = b
		st := in[b].clone()
		outs := make([]lenState, len(b.Succs))
		for i, n := range b.Nodes {
			last := i == len(b.Nodes)-1
			if e, ok := n.(ast.Expr); ok && last && len(b.Succs) == 2 {
				t, f := a.walkCond(e, st)
				outs[0], outs[1] = t, f
				return outs
			}
			if e, ok := n.(ast.Expr); ok {
				a.scan(e, st)
				continue
			}
			a.scan(n, st)
			a.effect(n, st)
		}
		for i := range outs {
			outs[i] = st
		}
		return outs
	}
	for iter := 0; iter < 10000; iter++ {
		changed := false
		for _, b := range blocks {
			if in[b] == nil {
				continue
			}
			outs := transfer(b)
			edgeOut[b] = outs
			for i, s := range b.Succs {
				nw := meetLen(in[s], outs[i])
				if !sameLen(nw, in[s]) {
					in[s] = nw
					changed = true
				}
			}
		}
		if !changed {
			break
		}
	}
	a.rec = true
	for _, b := range blocks {
		if in[b] != nil {
			edgeOut[b] = transfer(b)
		}
	}
	a.rec = false
	return
}

// witness: walks backwards from the site's block along CFG edges on which the
// bound for v is still below need, to the nearest block where that stops being
// possible (function entry, or the statement that re-sliced / reassigned v),
// and renders the branch decisions from there to the site.
func (a *guardAn) witness(s *gSite, edgeOut map[*cfg.Block][]lenState) string {
	blocks := a.fl.G.Blocks
	type hop struct {
		to  *cfg.Block
		idx int
	}
	preds := map[*cfg.Block][]hop{} // block -> (pred, succ index) stored as to=pred
	for _, b := range blocks {
		for i, sc := range b.Succs {
			if edgeOut[b] != nil && edgeOut[b][i] != nil && edgeOut[b][i][s.v] < s.need {
				preds[sc] = append(preds[sc], hop{b, i})
			}
		}
	}
	next := map[*cfg.Block]hop{} // pred -> (block it leads to, succ index)
	seen := map[*cfg.Block]bool{s.block: true}
	queue := []*cfg.Block{s.block}
	origin := s.block
	for len(queue) > 0 {
		b := queue[0]
		queue = queue[1:]
		origin = b
		if b == blocks[0] || len(preds[b]) == 0 {
			break
		}
		for _, h := range preds[b] {
			if !seen[h.to] {
				seen[h.to] = true
				next[h.to] = hop{b, h.idx}
				queue = append(queue, h.to)
			}
		}
	}
	var trail []string
	for b := origin; b != s.block; {
		h, ok := next[b]
		if !ok {
			break
		}
		if len(b.Succs) == 2 && len(b.Nodes) > 0 {
			if e, ok := b.Nodes[len(b.Nodes)-1].(ast.Expr); ok {
				trail = append(trail, fmt.Sprintf("%s `%s`=%v", a.fl.F.Prog.Pos(e.Pos()), core.Src(a.fl.F.Prog.Fset, e), h.idx == 0))
			}
		}
		b = h.to
	}
	if len(trail) > 10 {
		trail = append(trail[:3], append([]string{"…"}, trail[len(trail)-6:]...)...)
	}
	from := "function entry"
	if origin != blocks[0] && len(origin.Nodes) > 0 {
		from = a.fl.F.Prog.Pos(origin.Nodes[0].Pos()) + " `" + core.Src(a.fl.F.Prog.Fset, origin.Nodes[0]) + "`"
	}
	if len(trail) == 0 {
		return "reached from " + from + " with no sufficient length test on " + s.v.String()
	}
	return "path from " + from + ": " + strings.Join(trail, " ; ")
}

func (r *c17) guards() {
	c, g := r.c, r.k.g
	p := g.Pkg(relLzma)
	root := g.FindFunc(relLzma, "FileFormat", "Decode")
	if root == nil {
		c.Undecided("G", relLzma+".(FileFormat).Decode", "the decoder entry point exists", "not found")
		return
	}
	// functions reachable from Decode inside the package
	byObj := map[*types.Func]*core.Func{}
	for _, f := range g.AllFuncs(p) {
		if f.Obj != nil {
			byObj[f.Obj] = f
		}
	}
	reach := map[*types.Func]bool{root.Obj: true}
	work := []*core.Func{root}
	for len(work) > 0 {
		f := work[0]
		work = work[1:]
		ast.Inspect(f.Decl.Body, func(n ast.Node) bool {
			if call, ok := n.(*ast.CallExpr); ok {
				if fn := core.Callee(f.Info(), call); fn != nil {
					if t, ok := byObj[fn.Origin()]; ok && !reach[t.Obj] {
						reach[t.Obj] = true
						work = append(work, t)
					}
				}
			}
			return true
		})
	}
	var funcs []*core.Func
	for fn := range reach {
		funcs = append(funcs, byObj[fn])
	}
	sort.Slice(funcs, func(i, j int) bool { return funcs[i].Name() < funcs[j].Name() })
	floors := map[string]int{
		relLzma + ".(*prob).decodeBit": 2, relLzma + ".decodeLZMA": 3, relLzma + ".decodeXz": 47,
		relLzma + ".decodeRaw": 6, relLzma + ".decodeUvarint": 2,
	}
	total, nvar := 0, 0
	seenFloor := map[string]bool{}
	for _, f := range funcs {
		fl := core.NewFlow(f)
		a := &guardAn{r: r, fl: fl, info: f.Info(), untracked: map[types.Object]string{}, sites: map[token.Pos]*gSite{}, variable: map[token.Pos]string{}}
		// address-taken or captured slice variables are not tracked
		ast.Inspect(f.Decl.Body, func(n ast.Node) bool {
			switch v := n.(type) {
			case *ast.UnaryExpr:
				if v.Op == token.AND {
					if id, ok := ast.Unparen(v.X).(*ast.Ident); ok {
						if o, ok := f.Info().Uses[id].(*types.Var); ok && isByteishSlice(o.Type()) {
							a.untracked[o] = "address taken"
						}
					}
				}
			case *ast.RangeStmt:
				for _, e := range []ast.Expr{v.Key, v.Value} {
					if id, ok := e.(*ast.Ident); ok {
						o, _ := f.Info().Defs[id].(*types.Var)
						if o == nil {
							o, _ = f.Info().Uses[id].(*types.Var)
						}
						if o != nil && isByteishSlice(o.Type()) {
							a.untracked[o] = "assigned by a range clause"
						}
					}
				}
			case *ast.FuncLit:
				ast.Inspect(v, func(m ast.Node) bool {
					if id, ok := m.(*ast.Ident); ok {
						if o, ok := f.Info().Uses[id].(*types.Var); ok && !o.IsField() {
							a.untracked[o] = "captured by a function literal"
						}
					}
					return true
				})
			}
			return true
		})
		edgeOut := a.run()
		var bad []string
		var keys []token.Pos
		for pos := range a.sites {
			keys = append(keys, pos)
		}
		sort.Slice(keys, func(i, j int) bool { return keys[i] < keys[j] })
		for _, pos := range keys {
			s := a.sites[pos]
			if !s.ok {
				bad = append(bad, fmt.Sprintf("%s: `%s` needs len(%s) >= %d but the length tests passed on the way only give >= %d; %s", g.Pos(s.pos), s.text, s.v, s.need, s.have, a.witness(s, edgeOut)))
			}
		}
		var vkeys []token.Pos
		for pos := range a.variable {
			vkeys = append(vkeys, pos)
		}
		sort.Slice(vkeys, func(i, j int) bool { return vkeys[i] < vkeys[j] })
		for _, pos := range vkeys {
			nvar++
			c.Info("G.variable", f.Name(), g.Pos(pos)+": "+a.variable[pos]+" (not claimed)")
		}
		for o, why := range a.untracked {
			c.Undecided("G.guard", f.Name()+"["+o.Name()+"]", "slice variables of decoder functions are plain locals whose length facts can be tracked", g.Pos(o.Pos())+": "+o.Name()+" is "+why)
		}
		name := f.Name()
		if len(a.sites) == 0 {
			if fl, ok := floors[name]; ok {
				c.Floor("G.guard", "constant-offset accesses in "+name, 0, fl)
				seenFloor[name] = true
			}
			continue
		}
		total += len(a.sites)
		c.Check(len(bad) == 0, "G.guard", name, "every constant-offset index/slice of a byte-slice variable is preceded on every path by len() tests (less re-slicing since) that imply it is in range, so hostile input cannot make it panic", len(a.sites), strings.Join(bad, "\n"))
		if fl, ok := floors[name]; ok {
			c.Floor("G.guard", "constant-offset accesses in "+name, len(a.sites), fl)
			seenFloor[name] = true
		}
	}
	for name, fl := range floors {
		if !seenFloor[name] {
			c.Floor("G.guard", "constant-offset accesses in "+name+" (function not reachable from Decode)", 0, fl)
		}
	}
	c.Floor("G.guard", "constant-offset slice accesses in functions reachable from FileFormat.Decode", total, 60)
	c.Analysed("G_functions", len(funcs))
	c.Analysed("G_constant_sites", total)
	c.Analysed("G_variable_sites_not_claimed", nvar)
}
