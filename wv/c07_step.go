package main

// C07, rule H.step: decoders that accumulate a table-driven CRC byte by byte in a
// local copy of a receiver field (bzip2's flush_fast / flush_slow).
//
//   step      L = T[((L >> 24) as base.u8) ^ V] ^ (L ~mod<< 8)     (T a CRC table by value)
//   write     IO.write_u8?(a: W) / IO.write_u8_fast!(a: W)
//
//   H.step.write  every byte written to the output went through a CRC step with the
//                 same byte expression, with no assignment to that expression's
//                 variables and no other write in between
//   H.step.copy   the local accumulator is loaded from the field before the first step
//                 and stored back to the field after the last step on every path to the
//                 end of the function
//
// Not decided here: that no *extra* step happens without a write (flush_fast guards one
// write by a bounds test that is always true), and the arithmetic of the step itself
// beyond its shape.

import (
	"fmt"
	"strings"

	"wv/core"

	a "github.com/google/wuffs/lang/ast"
	t "github.com/google/wuffs/lang/token"
)

type hStepFn struct {
	h     *hPkg
	f     *a.Func
	g     *whCFG
	k     *whKeyer
	acc   t.ID            // the local accumulator L
	field string          // "this.block_checksum_have"
	step  map[int]*a.Expr // node -> V
	write map[int]*a.Expr // node -> W
	cin   map[int]bool    // L = this.field
	cout  map[int]bool    // this.field = L
	undec []string
}

func xorOperands(e *a.Expr) []*a.Expr {
	if e == nil {
		return nil
	}
	if op := e.Operator(); op == t.IDXBinaryHat || op == t.IDXAssociativeHat {
		return whOperands(e)
	}
	return nil
}

func isLocalIdent(e *a.Expr, id t.ID) bool {
	return e != nil && e.Operator() == 0 && e.Ident() == id
}

// matchStep recognises the MSB-first CRC step and returns the byte expression V.
func (s *hStepFn) matchStep(lhs, rhs *a.Expr) (*a.Expr, bool) {
	if lhs == nil || lhs.Operator() != 0 || !s.k.locals[lhs.Ident()] {
		return nil, false
	}
	L := lhs.Ident()
	ops := xorOperands(rhs)
	if len(ops) != 2 {
		return nil, false
	}
	for i := 0; i < 2; i++ {
		tab, shl := ops[i], ops[1-i]
		arr, idx, ok := tab.IsIndex()
		if !ok || arr.Operator() != 0 || !s.h.crcTables[s.h.p.str(arr.Ident())] {
			continue
		}
		// shl: L ~mod<< 8
		if shl.Operator() != t.IDXBinaryTildeModShiftL || !isLocalIdent(shl.LHS().AsExpr(), L) ||
			shl.RHS().AsExpr().ConstValue() == nil || shl.RHS().AsExpr().ConstValue().Int64() != 8 {
			return nil, false
		}
		// idx: ((L >> 24) as base.u8) ^ V
		xs := xorOperands(idx)
		if len(xs) != 2 {
			return nil, false
		}
		for j := 0; j < 2; j++ {
			top, v := xs[j], xs[1-j]
			if top.Operator() != t.IDXBinaryAs {
				continue
			}
			sh := top.LHS().AsExpr()
			if sh.Operator() == t.IDXBinaryShiftR && isLocalIdent(sh.LHS().AsExpr(), L) &&
				sh.RHS().AsExpr().ConstValue() != nil && sh.RHS().AsExpr().ConstValue().Int64() == 24 {
				s.acc = L
				return v, true
			}
		}
		return nil, false
	}
	return nil, false
}

func runStepRules(c *core.Ctx, h *hPkg) (nSteps, nWrites int) {
	p := h.p
	if len(h.crcTables) == 0 {
		return
	}
	for _, f := range p.Funcs {
		uses := false
		whStmtWalk(f.Body(), func(o *a.Node) {
			if o.Kind() != a.KAssign || o.AsAssign().LHS() == nil {
				return
			}
			whWalkExpr(o.AsAssign().RHS(), func(x *a.Expr) {
				if arr, _, ok := x.IsIndex(); ok && arr.Operator() == 0 && h.crcTables[p.str(arr.Ident())] {
					uses = true
				}
			})
		})
		if !uses {
			continue
		}
		anchor := fmt.Sprintf("std/%s %s", p.Name, p.whFname(f))
		const claimW = "every byte this function writes to the output has been folded into the running CRC (a table step with the same byte expression precedes the write, nothing in between changes that expression); a byte written without its step makes the block checksum disagree for valid files or leaves corrupted output undetected"
		const claimC = "the local CRC accumulator is loaded from the receiver field before the first step and stored back after the last one on every path to the end of the function; otherwise the bytes of this call are missing from the block checksum"
		s := &hStepFn{h: h, f: f, step: map[int]*a.Expr{}, write: map[int]*a.Expr{}, cin: map[int]bool{}, cout: map[int]bool{}}
		s.g = whBuildCFG(p, f)
		s.k = &whKeyer{p: p, locals: s.g.locals}
		if s.g.unsupported != "" {
			c.Undecided("H.step.write", anchor, claimW, "control flow outside the modelled subset: "+s.g.unsupported)
			continue
		}
		for _, n := range s.g.nodes {
			if n.stmt == nil || n.stmt.Kind() != a.KAssign {
				continue
			}
			as := n.stmt.AsAssign()
			lhs, rhs := as.LHS(), as.RHS()
			mentionsTable := false
			whWalkExpr(rhs, func(x *a.Expr) {
				if arr, _, ok := x.IsIndex(); ok && arr.Operator() == 0 && h.crcTables[p.str(arr.Ident())] {
					mentionsTable = true
				}
			})
			if mentionsTable {
				if v, ok := s.matchStep(lhs, rhs); ok && as.Operator() == t.IDEq {
					s.step[n.id] = v
				} else {
					s.undec = append(s.undec, fmt.Sprintf("%s: CRC table use is not the recognised step `L = T[((L >> 24) as base.u8) ^ V] ^ (L ~mod<< 8)`", s.g.pos(n)))
				}
				continue
			}
			if rcv, meth, args, ok := rhs.IsMethodCall(); ok && isIOExpr(rcv) && !isReaderExpr(rcv) && !rhs.Effect().Pure() {
				if m := p.str(meth); (m == "write_u8" || m == "write_u8_fast") && len(args) == 1 {
					s.write[n.id] = args[0].AsArg().Value()
				} else {
					s.undec = append(s.undec, fmt.Sprintf("%s: output operation %s is not a single-byte write", s.g.pos(n), m))
				}
			}
		}
		if s.acc == 0 {
			c.Undecided("H.step.write", anchor, claimW, strings.Join(s.undec, "\n"))
			continue
		}
		for _, n := range s.g.nodes {
			if n.stmt == nil || n.stmt.Kind() != a.KAssign {
				continue
			}
			as := n.stmt.AsAssign()
			lhs, rhs := as.LHS(), as.RHS()
			if lhs == nil || as.Operator() != t.IDEq {
				continue
			}
			if isLocalIdent(lhs, s.acc) && s.step[n.id] == nil {
				if fld := rhs.IsThisDotFoo(); fld != 0 && h.accFld["this."+p.str(fld)] {
					s.cin[n.id] = true
					s.field = "this." + p.str(fld)
				} else {
					s.undec = append(s.undec, fmt.Sprintf("%s: the local accumulator is assigned something other than the receiver's accumulator field or a CRC step", s.g.pos(n)))
				}
			}
			if fld := lhs.IsThisDotFoo(); fld != 0 && isLocalIdent(rhs, s.acc) {
				s.cout[n.id] = true
			}
		}
		if len(s.undec) > 0 {
			c.Undecided("H.step.write", anchor, claimW, strings.Join(hUniq(s.undec), "\n"))
			continue
		}
		nSteps += len(s.step)
		nWrites += len(s.write)

		// search: (node, key of the byte of the pending step, copied-in, dirty)
		type st struct {
			node       int
			last       string
			cin, dirty bool
			par        *st
		}
		var badW, badC []string
		mentions := map[string]map[string]bool{} // key of a byte expression -> local variables it reads
		for _, v := range s.step {
			m := map[string]bool{}
			whWalkExpr(v, func(x *a.Expr) {
				if x.Operator() == 0 && s.k.locals[x.Ident()] {
					m[p.str(x.Ident())] = true
				}
			})
			mentions[s.k.key(v)] = m
		}
		seen := map[string]bool{}
		queue := []*st{{node: s.g.entry}}
		trail := func(x *st) string {
			var lines []string
			for y := x; y != nil; y = y.par {
				n := s.g.nodes[y.node]
				if s.step[n.id] != nil || s.write[n.id] != nil || s.cin[n.id] || s.cout[n.id] {
					lines = append(lines, fmt.Sprint(n.line))
				}
			}
			for i, j := 0, len(lines)-1; i < j; i, j = i+1, j-1 {
				lines[i], lines[j] = lines[j], lines[i]
			}
			if len(lines) > 10 {
				lines = lines[len(lines)-10:]
			}
			return "lines " + strings.Join(lines, " → ")
		}
		for len(queue) > 0 {
			x := queue[0]
			queue = queue[1:]
			n := s.g.nodes[x.node]
			last, cin, dirty := x.last, x.cin, x.dirty
			switch {
			case n.kind == whFallOff || n.kind == whRet:
				if dirty && len(badC) < 2 {
					badC = append(badC, fmt.Sprintf("%s: the function ends with CRC steps that were never stored back to %s (%s)", s.g.pos(n), s.field, trail(x)))
				}
				continue
			case s.step[n.id] != nil:
				if !cin && len(badC) < 2 {
					badC = append(badC, fmt.Sprintf("%s: CRC step before the accumulator was loaded from the receiver field (%s)", s.g.pos(n), trail(x)))
				}
				last, dirty = s.k.key(s.step[n.id]), true
			case s.write[n.id] != nil:
				if w := s.k.key(s.write[n.id]); w != last && len(badW) < 2 {
					was := "no CRC step since the previous write"
					if last != "" {
						was = "the pending CRC step folded in " + last
					}
					badW = append(badW, fmt.Sprintf("%s: byte %s is written to the output but %s (%s)", s.g.pos(n), w, was, trail(x)))
				}
				last = ""
			case s.cin[n.id]:
				cin = true
			case s.cout[n.id]:
				dirty = false
			case n.stmt != nil && n.stmt.Kind() == a.KAssign && n.stmt.AsAssign().LHS() != nil:
				// an assignment to a variable the pending byte expression mentions makes it stale
				if r := s.k.rootOf(n.stmt.AsAssign().LHS()); strings.HasPrefix(r, "local:") && last != "" {
					if mentions[last][strings.TrimPrefix(r, "local:")] {
						last = ""
					}
				}
			}
			for _, e := range n.succ {
				nx := &st{node: e.to, last: last, cin: cin, dirty: dirty, par: x}
				key := fmt.Sprintf("%d|%s|%v|%v", nx.node, nx.last, nx.cin, nx.dirty)
				if !seen[key] {
					seen[key] = true
					queue = append(queue, nx)
				}
			}
		}
		c.Check(len(badW) == 0, "H.step.write", anchor, claimW, len(s.write)+len(s.step), strings.Join(badW, "\n"))
		c.Check(len(badC) == 0 && len(s.cin) > 0 && len(s.cout) > 0, "H.step.copy", anchor, claimC, len(s.cin)+len(s.cout), strings.Join(badC, "\n")+func() string {
			if len(s.cin) == 0 || len(s.cout) == 0 {
				return fmt.Sprintf("\n%s:%d: no load from / store to the receiver's accumulator field", f.Filename(), f.Line())
			}
			return ""
		}())
	}
	return
}
